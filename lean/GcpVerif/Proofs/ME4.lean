/-
C14.4 (a report of availability cancels the recovery window) and C14.7 (convergence), from the
timer invariant `TInv` (ME3) and the delayed-switch invariant `J` (ME2).
-/
import GcpVerif.Proofs.ME3
namespace GcpVerif.ME

/-! ### counting live recovery timers -/

def liveRec (t : Timer) : Bool := !t.stopped && isRecoveryTimer t

theorem liveRecoveryCount_eq (s : St) : liveRecoveryCount s = s.timers.countP liveRec := by
  unfold liveRecoveryCount liveTimers
  rw [List.filter_filter, List.countP_eq_length_filter]
  congr 1
  apply List.filter_congr
  intro t _
  simp [liveRec, Bool.and_comm]

/-- a `filterMap` that keeps the predicate's value element-wise keeps the count -/
theorem countP_filterMap_same (P : Timer → Bool) (g : Timer → Option Timer) (ts : List Timer)
    (h : ∀ t ∈ ts, (match g t with | some t' => P t' | none => false) = P t) :
    (ts.filterMap g).countP P = ts.countP P := by
  induction ts with
  | nil => rfl
  | cons hd tl ih =>
    have hhd := h hd (List.mem_cons_self)
    have htl := ih (fun t ht => h t (List.mem_cons_of_mem _ ht))
    simp only [List.filterMap_cons]
    cases hg : g hd with
    | none =>
      rw [hg] at hhd; simp only at hhd
      rw [htl, List.countP_cons, ← hhd]; simp
    | some t' =>
      rw [hg] at hhd; simp only at hhd
      simp only [List.countP_cons, htl, hhd]

def stopFn (now : Int) (tid : Nat) (t : Timer) : Option Timer :=
  if t.tid == tid then (if t.due ≤ now then some { t with stopped := true } else none) else some t

theorem stopTimer_eq (now : Int) (ts : List Timer) (tid : Nat) : stopTimer now ts tid = ts.filterMap (stopFn now tid) := rfl

theorem stopFn_other {now : Int} {tid : Nat} {t : Timer} (h : t.tid ≠ tid) : stopFn now tid t = some t := by
  unfold stopFn
  have : (t.tid == tid) = false := by simpa using h
  simp [this]

theorem stopFn_hit_liveRec {now : Int} {tid : Nat} {t : Timer} (h : t.tid = tid) :
    (match stopFn now tid t with | some t' => liveRec t' | none => false) = false := by
  unfold stopFn
  have : (t.tid == tid) = true := by simpa using h
  simp only [this, ↓reduceIte]
  by_cases hd : t.due ≤ now
  · simp [hd, liveRec]
  · simp [hd]

/-- stopping an id nobody is live on changes no count -/
theorem count_stop_none {now : Int} {ts : List Timer} {tid : Nat}
    (h : ∀ t ∈ ts, t.tid = tid → liveRec t = false) :
    (stopTimer now ts tid).countP liveRec = ts.countP liveRec := by
  rw [stopTimer_eq]
  apply countP_filterMap_same
  intro t ht
  by_cases htid : t.tid = tid
  · rw [stopFn_hit_liveRec htid, h t ht htid]
  · rw [stopFn_other htid]

/-- stopping the id of a live recovery timer lowers the count by exactly one -/
theorem count_stop_one {now : Int} {ts : List Timer} {tid : Nat}
    (hnd : (ts.map (·.tid)).Nodup)
    (h : ∃ t ∈ ts, t.tid = tid ∧ liveRec t = true) :
    (stopTimer now ts tid).countP liveRec + 1 = ts.countP liveRec := by
  induction ts with
  | nil => obtain ⟨t, ht, _⟩ := h; cases ht
  | cons hd tl ih =>
    obtain ⟨t, ht, htid, hlive⟩ := h
    simp only [List.map_cons, List.nodup_cons] at hnd
    rw [stopTimer_eq]
    simp only [List.filterMap_cons]
    by_cases hhd : hd.tid = tid
    · -- the head is the timer: nothing in the tail has its id
      have hnot : ∀ t' ∈ tl, t'.tid ≠ tid := by
        intro t' ht' heq
        exact hnd.1 (by rw [hhd, ← heq]; exact List.mem_map_of_mem (f := (·.tid)) ht')
      have hthd : t = hd := by
        rcases List.mem_cons.mp ht with h1 | h1
        · exact h1
        · exact absurd htid (hnot t h1)
      have htail : (tl.filterMap (stopFn now tid)).countP liveRec = tl.countP liveRec := by
        rw [← stopTimer_eq]
        exact count_stop_none (fun t' ht' heq => absurd heq (hnot t' ht'))
      have hhead := stopFn_hit_liveRec (now := now) hhd
      rw [hthd] at hlive
      cases hg : stopFn now tid hd with
      | none => simp only [htail, List.countP_cons, hlive, ↓reduceIte]
      | some t' =>
        rw [hg] at hhead; simp only at hhead
        simp only [List.countP_cons, htail, hhead, hlive, ↓reduceIte]
        simp
    · rw [stopFn_other hhd]
      have htl : t ∈ tl := by
        rcases List.mem_cons.mp ht with h1 | h1
        · rw [h1] at htid; exact absurd htid hhd
        · exact h1
      have := ih hnd.2 ⟨t, htl, htid, hlive⟩
      rw [stopTimer_eq] at this
      simp only [List.countP_cons]
      omega

/-! ### C14.4 -/

theorem findEp_updId_self (l : List Ep) (id : String) (f : Ep → Ep) (hf : ∀ x, (f x).id = x.id) :
    findEp (updId l id f) id = (findEp l id).map f := by
  unfold findEp updId
  induction l with
  | nil => rfl
  | cons hd tl ih =>
    simp only [List.map_cons, List.find?_cons]
    by_cases h : (hd.id == id) = true
    · simp [h, hf]
    · have h' : (hd.id == id) = false := by simpa using h
      simp only [h', Bool.false_eq_true, ↓reduceIte]
      exact ih

theorem liveRecoveryCount_muc (s : St) : liveRecoveryCount (maybeUpdateCurrent s) = liveRecoveryCount s := by
  unfold liveRecoveryCount
  rw [muc_recovery_timers]

/-- **C14.4** a report of availability makes the endpoint available at once; if it was inside its
    recovery window the window is cancelled — exactly one live recovery timer fewer is pending —
    and otherwise no recovery timer is touched -/
theorem c14_cancel_holds {s : St} (h : Reach s) (op : Op) : c14_cancel s op (stepRaw s op).1 = true := by
  have ht := reach_tinv h
  unfold c14_cancel
  cases op with
  | setAvail e a =>
    cases a with
    | false => rfl
    | true =>
      simp only
      cases hf : findEp s.eps e with
      | none => rfl
      | some x =>
        have hxm := findEp_some hf
        simp only
        have hpost : (stepRaw s (.setAvail e true)).1 = maybeUpdateCurrent (setStateEp s x .available) := by
          simp only [stepRaw, opSetAvail, setEndpointAvailability, hf, ↓reduceIte]
        rw [hpost, liveRecoveryCount_muc]
        have hf1 := muc_fields (setStateEp s x .available)
        rw [hf1.1]
        -- the endpoint is available afterwards
        have hfe : findEp (setStateEp s x .available).eps e = some (touch .available s.now x) := by
          simp only [setStateEp]
          rw [← hxm.2, findEp_updId_self _ _ _ (by intro y; rfl), hxm.2, hf]
          rfl
        rw [hfe]
        simp only [touch, beq_self_eq_true, Bool.true_and]
        -- the timers
        rw [liveRecoveryCount_eq, liveRecoveryCount_eq]
        simp only [setStateEp]
        by_cases hrec : x.status = .recovering
        · simp only [hrec, beq_self_eq_true, ↓reduceIte, beq_iff_eq]
          obtain ⟨t, htm, h1, h2, h3⟩ := ht.recov x hxm.1 hrec (by simp)
          rw [h1]
          simp only [stopOpt]
          apply count_stop_one ht.tidNd
          exact ⟨t, htm, rfl, by simp [liveRec, h2, isRecoveryTimer, h3]⟩
        · have hb : (x.status == Status.recovering) = false := by simpa using hrec
          simp only [hb, Bool.false_eq_true, ↓reduceIte, beq_iff_eq]
          cases hxt : x.timer with
          | none => rfl
          | some tid =>
            simp only [stopOpt]
            apply count_stop_none
            intro t htm htid
            have := ht.quiet x hxm.1 hrec t htm (by rw [hxt, htid])
            simp [liveRec, this]
  | setEndpoints l => rfl
  | advance dt => rfl
  | fire tid => rfl

/-! ### C14.7: convergence -/

/-- while `current` is not the highest-priority available endpoint, something is still pending:
    the current endpoint is inside its recovery window, or a delayed switch to that endpoint is armed -/
def V (s : St) : Prop :=
  ∀ T, topAvail s.eps = some T →
    s.current = T.id ∨ (∃ c, findEp s.eps s.current = some c ∧ c.status = .recovering) ∨
    (∃ t ∈ s.timers, t.kind = .switch ∧ t.stopped = false ∧ s.future = T.id)

theorem muc_V (s : St) : V (maybeUpdateCurrent s) := by
  intro T hT
  rw [muc_eq] at hT ⊢
  have hsw : ∀ f T', topAvail s.eps = some T' →
      (switchFromTo s f T').current = T'.id ∨
      (∃ t ∈ (switchFromTo s f T').timers, t.kind = .switch ∧ t.stopped = false ∧ (switchFromTo s f T').future = T'.id) := by
    intro f T' _
    unfold switchFromTo
    by_cases h1 : (s.current == T'.id) = true
    · left; simp only [h1, ↓reduceIte]; simpa using h1
    · by_cases h2 : (s.d == 0 || goneOrUnavailable f) = true
      · left; simp [h1, h2]
      · right
        rw [if_neg h1, if_neg h2]
        exact ⟨{ tid := s.nextTid, due := s.now + s.d, kind := .switch, stopped := false },
          List.mem_append.mpr (Or.inr (List.mem_singleton.mpr rfl)), rfl, rfl, rfl⟩
  cases hc : findEp s.eps s.current with
  | none =>
    rw [hc] at hT
    cases hT' : topAvail s.eps with
    | none =>
      rw [hT'] at hT
      simp only at hT
      cases hto : topOf s.eps with
      | none => rw [hto] at hT; simp only at hT; rw [hT'] at hT; cases hT
      | some t => rw [hto] at hT; simp only at hT; rw [hT'] at hT; cases hT
    | some T' =>
      rw [hT'] at hT
      simp only at hT ⊢
      have he := (switchFromTo_fields s none T').1
      rw [he, hT'] at hT
      cases hT
      rcases hsw none T hT' with h | h
      · exact Or.inl h
      · exact Or.inr (Or.inr h)
  | some c =>
    rw [hc] at hT
    cases hT' : topAvail s.eps with
    | none => rw [hT'] at hT; simp only at hT; rw [hT'] at hT; cases hT
    | some T' =>
      rw [hT'] at hT
      simp only at hT ⊢
      by_cases hp : isProtected (some c) (some T') = true
      · simp only [hp, ↓reduceIte] at hT ⊢
        right; left
        unfold isProtected at hp
        simp only [Bool.and_eq_true, beq_iff_eq, decide_eq_true_eq] at hp
        exact ⟨c, hc, hp.1⟩
      · simp only [hp, Bool.false_eq_true, ↓reduceIte] at hT ⊢
        have he := (switchFromTo_fields s (some c) T').1
        rw [he, hT'] at hT
        cases hT
        rcases hsw (some c) T hT' with h | h
        · exact Or.inl h
        · exact Or.inr (Or.inr h)

/-- what the delayed-switch closure does when its target is in the list and available -/
theorem fireSwitch_target {s0 : St} {e : Ep} (hfut : findEp s0.eps s0.future = some e) (hav : e.status = .available) :
    fireSwitch s0 = { s0 with current := e.id } ∨
    (∃ c, findEp s0.eps s0.current = some c ∧ c.status ≠ .unavailable ∧ c.prio < e.prio ∧ fireSwitch s0 = s0) := by
  unfold fireSwitch
  rw [hfut]
  simp only [hav, beq_self_eq_true, ↓reduceIte]
  cases hc : findEp s0.eps s0.current with
  | none => left; rfl
  | some c =>
    simp only
    by_cases hg : (c.status != .unavailable && decide (c.prio < e.prio)) = true
    · right
      simp only [Bool.and_eq_true, bne_iff_ne, ne_eq, decide_eq_true_eq] at hg
      refine ⟨c, rfl, hg.1, hg.2, ?_⟩
      have : (c.status != .unavailable && decide (c.prio < e.prio)) = true := by simp [hg.1, hg.2]
      simp [this]
    · left; simp [hg]

/-- removing a fired timer keeps every other pending delayed switch -/
theorem V_remove {s : St} (hv : V s) (ht : TInv s none) {t0 : Timer} (ht0 : t0 ∈ s.timers) (tid : Nat) (htid : t0.tid = tid)
    (hrec : t0.kind ≠ .switch) : V { s with timers := removeTimer s.timers tid } := by
  intro T hT
  rcases hv T hT with h | h | ⟨t, htm, hk, hs, hf⟩
  · exact Or.inl h
  · exact Or.inr (Or.inl h)
  · right; right
    refine ⟨t, ?_, hk, hs, hf⟩
    apply List.mem_filter.mpr
    refine ⟨htm, ?_⟩
    simp only [bne_iff_ne, ne_eq]
    intro heq
    have := ht.tidInj t htm t0 ht0 (by rw [heq, htid])
    rw [this] at hk
    exact hrec hk

theorem V_opFire {s : St} (hv : V s) (ht : TInv s none) (hi : Inv s) (hj : J s) (tid : Nat) : V (opFire s tid).1 := by
  unfold opFire
  cases hfind : s.timers.find? (fun t => t.tid == tid) with
  | none => exact hv
  | some t =>
    have htm : t ∈ s.timers := List.mem_of_find?_eq_some hfind
    have htid : t.tid = tid := by simpa using List.find?_some hfind
    simp only
    split
    · exact hv
    · cases hk : t.kind with
      | switch =>
        simp only
        -- the delayed switch fires
        intro T hT
        have hJ0 : J { s with timers := removeTimer s.timers tid } := hj
        have heps : (fireSwitch { s with timers := removeTimer s.timers tid }).eps = s.eps := by
          rcases fireSwitch_cases { s with timers := removeTimer s.timers tid } with h | ⟨e, _, _, h, _⟩ <;> rw [h]
        rw [heps] at hT
        have hTm := topAvail_mem hT
        rcases hv T hT with h | h | ⟨t1, ht1, hk1, hs1, hf1⟩
        · -- already converged: the closure does not move away from the top available endpoint
          rcases fireSwitch_cases { s with timers := removeTimer s.timers tid } with hid | ⟨e, hfut, hav, hsw, hguard⟩
          · rw [hid]; exact Or.inl h
          · rw [hsw]
            rcases hJ0 e hfut hav with htop | ⟨c, hcf, hst, hlt⟩
            · left
              simp only at htop ⊢
              rw [hT] at htop; cases htop; rfl
            · exact absurd ⟨hst, hlt⟩ (hguard c hcf)
        · -- the current endpoint is recovering
          rcases fireSwitch_cases { s with timers := removeTimer s.timers tid } with hid | ⟨e, hfut, hav, hsw, hguard⟩
          · rw [hid]; exact Or.inr (Or.inl h)
          · rw [hsw]
            rcases hJ0 e hfut hav with htop | ⟨c, hcf, hst, hlt⟩
            · left
              simp only at htop ⊢
              rw [hT] at htop; cases htop; rfl
            · exact absurd ⟨hst, hlt⟩ (hguard c hcf)
        · -- a delayed switch to T is armed: this closure performs it, or the guard blocks because the
          -- current endpoint is recovering and outranks T
          have hfT : findEp s.eps s.future = some T := by rw [hf1]; exact findEp_of_mem hi.idInj hTm.1
          rcases fireSwitch_target (s0 := { s with timers := removeTimer s.timers tid }) hfT hTm.2 with hsw | ⟨c, hcf, hst, hlt, hid⟩
          · rw [hsw]; exact Or.inl rfl
          · rw [hid]
            right; left
            refine ⟨c, hcf, ?_⟩
            -- not unavailable, and not available either (it would outrank the top available endpoint)
            cases hcs : c.status with
            | unavailable => exact absurd hcs hst
            | recovering => rfl
            | available =>
              have := topAvail_min hT c (findEp_some hcf).1 hcs
              omega
      | recovery obj id stamp =>
        simp only
        have hrec : t.kind ≠ .switch := by rw [hk]; simp
        have hv0 := V_remove hv ht htm tid htid hrec
        unfold fireRecovery
        simp only
        cases hfe : findEp s.eps id with
        | none =>
          simp only
          cases hfo : s.orphans.find? (fun e => e.obj == obj) with
          | none => exact hv0
          | some o =>
            simp only
            split
            · exact hv0
            · exact muc_V _
        | some e =>
          simp only
          by_cases hobj : (e.obj == obj) = true
          · simp only [hobj, ↓reduceIte]
            split
            · exact hv0
            · exact muc_V _
          · simp only [hobj, Bool.false_eq_true, ↓reduceIte]
            cases hfo : s.orphans.find? (fun e => e.obj == obj) with
            | none => exact hv0
            | some o =>
              simp only
              split
              · exact hv0
              · exact muc_V _

theorem V_step {s : St} (hv : V s) (ht : TInv s none) (hi : Inv s) (hj : J s) (op : Op) : V (stepRaw s op).1 := by
  cases op with
  | setAvail e a => exact muc_V _
  | setEndpoints l =>
    simp only [stepRaw, opSetEndpoints]
    split
    · exact hv
    · exact muc_V _
  | advance dt => exact hv
  | fire tid => exact V_opFire hv ht hi hj tid

theorem V_init {r d : Int} {l : List String} {s : St} (h : initRaw r d l = some s) : V s := by
  intro T hT
  exfalso
  cases l with
  | nil => simp [initRaw] at h
  | cons first rest =>
    simp only [initRaw, Option.some.injEq] at h
    subst h
    let s0 : St := { r := r, d := d, eps := [], orphans := [], current := first, future := "",
                     timers := [], now := 0, nextObj := 0, nextTid := 0 }
    have h0 : InitInv s0 0 := by constructor <;> simp [s0]
    obtain ⟨j, hj⟩ := initLoop_inv (l := first :: rest) h0
    have hTm := topAvail_mem hT
    exact hj.noAvail T hTm.1 hTm.2

theorem reach_V {s : St} (h : Reach s) : V s := by
  induction h with
  | initRaw _ _ hi => exact V_init hi
  | stepRaw op hr ih => exact V_step ih (reach_tinv hr) (reach_inv hr) (reach_J hr) op

/-- **C14.7** once inputs stop and every pending timer has fired, `current` is the highest-priority
    available endpoint, if any endpoint is available -/
theorem c14_converged_holds {s : St} (h : Reach s) (op : Op) : c14_converged (stepRaw s op).1 = true := by
  have hr := Reach.stepRaw op h
  have hv := reach_V hr
  have ht := reach_tinv hr
  unfold c14_converged
  by_cases hcond : ((liveTimers (stepRaw s op).1).isEmpty && anyAvail (stepRaw s op).1.eps) = true
  · simp only [hcond, ↓reduceIte]
    simp only [Bool.and_eq_true, List.isEmpty_iff] at hcond
    obtain ⟨hempty, hav⟩ := hcond
    obtain ⟨T, hT⟩ := anyAvail_iff_topAvail.mp hav
    rw [hT]
    have hnolive : ∀ t ∈ (stepRaw s op).1.timers, t.stopped = false → False := by
      intro t htm hs
      have : t ∈ liveTimers (stepRaw s op).1 := by
        unfold liveTimers; exact List.mem_filter.mpr ⟨htm, by simp [hs]⟩
      rw [hempty] at this; cases this
    rcases hv T hT with h1 | ⟨c, hc, hrec⟩ | ⟨t, htm, _, hs, _⟩
    · simp [h1]
    · obtain ⟨t, htm, _, hs, _⟩ := ht.recov c (findEp_some hc).1 hrec (by simp)
      exact absurd hs (fun hs => hnolive t htm hs)
    · exact absurd hs (fun hs => hnolive t htm hs)
  · simp only [hcond, Bool.false_eq_true, ↓reduceIte]

end GcpVerif.ME
