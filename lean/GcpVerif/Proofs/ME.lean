/-
C13 / C14 — property theorems about the MultiEndpoint model.

Every theorem has the form: for every state reachable from `NewMultiEndpoint` (any endpoint list,
any `0 ≤ r`, `0 ≤ d`) through any finite sequence of operations (reports, list replacements, clock
advances, timer firings in any order, including timers that were stopped after they became due),
and for every next operation, the monitor clause of Spec/ME.lean evaluates to `true`.
The monitor clauses are the same definitions the driver evaluates on the implementation's trace.
-/
import GcpVerif.Proofs.MEStep
namespace GcpVerif.ME

/-! ## C13 -/

/-- C13.1 `Current()` always names an endpoint of the most recently accepted list. -/
theorem c13_mem_holds {s : St} (h : Reach s) (op : Op) : c13_mem (stepRaw s op).1 = true := by
  have hi := inv_step (reach_inv h) op
  obtain ⟨c, hc⟩ := hi.curMem
  exact findEp_isSome_iff.mpr ⟨c, hc⟩

/-- C13.1 also holds right after construction. -/
theorem c13_mem_init {r d : Int} {l : List String} {s : St} (hr : 0 ≤ r) (hd : 0 ≤ d)
    (h : initRaw r d l = some s) : c13_mem s = true := by
  obtain ⟨c, hc⟩ := (inv_init hr hd h).curMem
  exact findEp_isSome_iff.mpr ⟨c, hc⟩

/-- C13.2 when the triggering call returns, a current endpoint that is known to be unavailable
    coexists with no available endpoint. -/
theorem c13_unavail_excluded_holds {s : St} (h : Reach s) (op : Op) :
    c13_unavail_excluded (stepRaw s op).1 = true := by
  have hi := inv_step (reach_inv h) op
  unfold c13_unavail_excluded
  cases hc : findEp (stepRaw s op).1.eps (stepRaw s op).1.current with
  | none => rfl
  | some c =>
    simp only
    by_cases hu : c.status = .unavailable
    · simp only [hu, beq_self_eq_true, ↓reduceIte, Bool.not_eq_true']
      exact anyAvail_eq_false.mpr (hi.m5 c hc hu)
    · have : (c.status == Status.unavailable) = false := by simp [hu]
      simp [this]

/-- C13.6 an empty endpoint list is rejected and changes nothing; a non-empty one is accepted. -/
theorem c13_empty_holds (s : St) (op : Op) :
    c13_empty s op (stepRaw s op).2 (stepRaw s op).1 = true := by
  cases op with
  | setEndpoints l =>
    cases l with
    | nil => simp [c13_empty, stepRaw, opSetEndpoints, obsEq]
    | cons x xs => simp [c13_empty, stepRaw, opSetEndpoints]
  | _ => rfl

/-! ### facts about `nextCur` (the effect of maybeUpdateCurrent on `current`) -/

section nextCur
variable {eps : List Ep} {cur : String} {d : Int}
variable (hid : ∀ a ∈ eps, ∀ b ∈ eps, a.id = b.id → a = b)
variable (hpr : ∀ a ∈ eps, ∀ b ∈ eps, a.prio = b.prio → a.id = b.id)

theorem nextCur_noavail (hna : anyAvail eps = false) :
    nextCur eps cur d =
      if (ids eps).contains cur then cur
      else match topOf eps with | some t => t.id | none => cur := by
  have hnone : topAvail eps = none := topAvail_eq_none.mpr (anyAvail_eq_false.mp hna)
  unfold nextCur
  cases hc : findEp eps cur with
  | none =>
    have : (ids eps).contains cur = false := by
      cases hcon : (ids eps).contains cur with
      | false => rfl
      | true => obtain ⟨e, he⟩ := findEp_isSome_iff.mp hcon; rw [hc] at he; cases he
    rw [this]
    simp only [hnone, Bool.false_eq_true, ↓reduceIte]
    cases topOf eps <;> rfl
  | some c =>
    have : cur ∈ ids eps := by simpa using findEp_isSome_iff.mpr ⟨c, hc⟩
    simp [hnone, this]

include hid hpr in
/-- a recovering current endpoint with no higher-priority endpoint available is kept -/
theorem nextCur_stays {c : Ep} (hc : findEp eps cur = some c) (hrec : c.status = .recovering)
    (hno : higherAvail eps c.prio = false) : nextCur eps cur d = cur := by
  unfold nextCur
  rw [hc]
  cases ht : topAvail eps with
  | none => rfl
  | some t =>
    simp only
    have htm := topAvail_mem ht
    have hcm := findEp_some hc
    have hge : ¬ t.prio < c.prio := by
      intro hlt
      have : higherAvail eps c.prio = true := by
        simp only [higherAvail, List.any_eq_true]
        exact ⟨t, htm.1, by simp [isAvail, htm.2, hlt]⟩
      rw [hno] at this; cases this
    have hne : t.prio ≠ c.prio := by
      intro heq
      have := hid t htm.1 c hcm.1 (hpr t htm.1 c hcm.1 heq)
      rw [this, hrec] at htm; cases htm.2
    have : isProtected (some c) (some t) = true := by
      simp only [isProtected, hrec, beq_self_eq_true, Bool.true_and, decide_eq_true_eq]; omega
    simp [this]

/-- with a switching delay, maybeUpdateCurrent never leaves a current endpoint that is in the
    table and not unavailable -/
theorem nextCur_no_preempt {c : Ep} (hd : d ≠ 0) (hc : findEp eps cur = some c)
    (hst : c.status ≠ .unavailable) : nextCur eps cur d = cur := by
  unfold nextCur
  rw [hc]
  cases ht : topAvail eps with
  | none => rfl
  | some t =>
    simp only
    split
    · rfl
    · split
      · rfl
      · rename_i h1 h2
        have : ¬ (d = 0 ∨ c.status = .unavailable) := by
          intro h; rcases h with h | h
          · exact hd h
          · exact hst h
        simp [this]

include hid hpr in
theorem nextCur_no_downgrade {c n : Ep} (hne : nextCur eps cur d ≠ cur)
    (hc : findEp eps cur = some c) (hav : c.status = .available)
    (hn : findEp eps (nextCur eps cur d) = some n) : n.prio < c.prio := by
  unfold nextCur at hne hn
  rw [hc] at hne hn
  cases ht : topAvail eps with
  | none => rw [ht] at hne; exact absurd rfl hne
  | some t =>
    rw [ht] at hne hn
    simp only at hne hn
    have htm := topAvail_mem ht
    have hcm := findEp_some hc
    split at hne
    · exact absurd rfl hne
    · split at hne
      · exact absurd rfl hne
      · rename_i h1 h2
        split at hne
        · rename_i h3
          simp only [h1, h2, h3, Bool.false_eq_true, ↓reduceIte] at hn
          rw [findEp_of_mem hid htm.1] at hn
          have hnt : n = t := (Option.some.inj hn).symm
          rw [hnt]
          have hle := topAvail_min ht c hcm.1 hav
          have : t.prio ≠ c.prio := by
            intro heq
            have := hpr t htm.1 c hcm.1 heq
            rw [hcm.2] at this
            exact h2 this.symm
          omega
        · exact absurd rfl hne

theorem nextCur_switch_top (hne : nextCur eps cur d ≠ cur) (hav : anyAvail eps = true) :
    ∃ t, topAvail eps = some t ∧ nextCur eps cur d = t.id := by
  obtain ⟨t, ht⟩ := anyAvail_iff_topAvail.mp hav
  refine ⟨t, ht, ?_⟩
  unfold nextCur at hne ⊢
  rw [ht] at hne ⊢
  cases hc : findEp eps cur with
  | none => rfl
  | some c =>
    rw [hc] at hne
    simp only at hne ⊢
    split
    · rename_i h1; simp [h1] at hne
    · split
      · rename_i h1 h2; simp [h1, h2] at hne
      · split
        · rfl
        · rename_i h1 h2 h3; simp [h1, h2, h3] at hne

end nextCur

/-! ### stepRaw theorems that do not need timer invariants -/

/-- C13.4 if no endpoint is available after an operation, `current` is unchanged, unless it was
    removed from the list — then it is the list's top-priority endpoint. -/
theorem c13_noavail_holds {s : St} (h : Reach s) (op : Op) :
    c13_noavail s (stepRaw s op).1 = true := by
  have hi := reach_inv h
  unfold c13_noavail
  by_cases hna : anyAvail (stepRaw s op).1.eps = true
  · simp [hna]
  · have hna' : anyAvail (stepRaw s op).1.eps = false := by simpa using hna
    simp only [hna', Bool.false_eq_true, ↓reduceIte]
    cases step_shape hi op with
    | idle he hc _ _ _ =>
      have : s.current ∈ ids (stepRaw s op).1.eps := by
        rw [he]; simpa using findEp_isSome_iff.mpr hi.curMem
      simp [this, hc]
    | muc s1 hb hc1 _ hd1 heq =>
      have hf := muc_fields s1
      have hcur := muc_current s1
      rw [heq] at hna' ⊢
      rw [hf.1] at hna' ⊢
      rw [hcur, nextCur_noavail hna', hc1]
      by_cases hcon : s.current ∈ ids s1.eps
      · simp [hcon]
      · cases hto : topOf s1.eps with
        | none => exact absurd (topOf_eq_none.mp hto) hb.nonempty
        | some t => simp [hcon]
    | sw s0 tid _ he hc _ _ _ heq =>
      rcases fireSwitch_cases s0 with hid | ⟨e, hfut, hav, hsw, _⟩
      · rw [heq, hid, he, hc]
        have : s.current ∈ ids s.eps := by simpa using findEp_isSome_iff.mpr hi.curMem
        simp [this]
      · -- the target is available: contradiction with "no endpoint available"
        rw [heq, hsw] at hna'
        have := anyAvail_eq_false.mp hna' e (findEp_some hfut).1
        exact absurd hav this

/-- C14.2 a recovering current endpoint stays current as long as no higher-priority endpoint is
    available (the only ways out are its own recovery timer making it unavailable, or removal). -/
theorem c14_stays_holds {s : St} (h : Reach s) (op : Op) :
    c14_stays s (stepRaw s op).1 = true := by
  have hi := reach_inv h
  unfold c14_stays
  cases hc : findEp (stepRaw s op).1.eps s.current with
  | none => rfl
  | some c =>
    simp only
    by_cases hcond : (c.status == .recovering && !higherAvail (stepRaw s op).1.eps c.prio) = true
    · simp only [hcond, ↓reduceIte, beq_iff_eq]
      simp only [Bool.and_eq_true, beq_iff_eq, Bool.not_eq_true'] at hcond
      cases step_shape hi op with
      | idle _ hcur _ _ _ => exact hcur
      | muc s1 hb hc1 _ _ heq =>
        have hf := muc_fields s1
        rw [heq, hf.1] at hc hcond
        rw [heq, muc_current, ← hc1]
        rw [← hc1] at hc
        exact nextCur_stays hb.idInj hb.prioInj hc hcond.1 hcond.2
      | sw s0 tid _ he hc0 _ _ _ heq =>
        rcases fireSwitch_cases s0 with hid | ⟨e, hfut, hav, hsw, hguard⟩
        · rw [heq, hid]; exact hc0
        · exfalso
          rw [heq, hsw] at hc hcond
          simp only at hc hcond
          rw [← hc0] at hc
          have hfe := findEp_some hfut
          have hcm := findEp_some hc
          have hg := hguard c hc
          have hst : c.status ≠ .unavailable := by rw [hcond.1]; simp
          have hge : ¬ c.prio < e.prio := fun hlt => hg ⟨hst, hlt⟩
          have hne : e.prio ≠ c.prio := by
            intro heq'
            have hinj : ∀ a ∈ s0.eps, ∀ b ∈ s0.eps, a.id = b.id → a = b := by rw [he]; exact hi.idInj
            have hpinj : ∀ a ∈ s0.eps, ∀ b ∈ s0.eps, a.prio = b.prio → a.id = b.id := by rw [he]; exact hi.prioInj
            have := hinj e hfe.1 c hcm.1 (hpinj e hfe.1 c hcm.1 heq')
            rw [this, hcond.1] at hav; cases hav
          have : higherAvail s0.eps c.prio = true := by
            simp only [higherAvail, List.any_eq_true]
            exact ⟨e, hfe.1, by simp [isAvail, hav]; omega⟩
          rw [hcond.2] at this; cases this
    · simp [hcond]

/-- C14.5 with a switching delay, no report and no list replacement moves `current` away from an
    endpoint that is still in the list and available or recovering, inside that very call. -/
theorem c14_no_preempt_holds {s : St} (h : Reach s) (op : Op) :
    c14_no_preempt s op (stepRaw s op).1 = true := by
  have hi := reach_inv h
  unfold c14_no_preempt
  by_cases hd : s.d = 0
  · simp [hd]
  · cases hc : findEp (stepRaw s op).1.eps s.current with
    | none => simp
    | some c =>
      by_cases hst : c.status = .unavailable
      · simp [hst]
      · have hgoal : (stepRaw s op).1.current = s.current ∨ isApiCall op = false := by
          cases step_shape hi op with
          | idle _ hcur _ _ _ => exact Or.inl hcur
          | muc s1 hb hc1 _ hd1 heq =>
            left
            have hf := muc_fields s1
            rw [heq, hf.1, ← hc1] at hc
            rw [heq, muc_current, ← hc1]
            exact nextCur_no_preempt (by rw [hd1]; exact hd) hc hst
          | sw s0 tid hop _ _ _ _ _ _ => right; rw [hop]; rfl
        rcases hgoal with hg | hg
        · simp [hg]
        · simp [hg]

/-- C14.6 `current` never moves from an endpoint that is available to a lower-priority one. -/
theorem c14_no_downgrade_holds {s : St} (h : Reach s) (op : Op) :
    c14_no_downgrade s (stepRaw s op).1 = true := by
  have hi := reach_inv h
  unfold c14_no_downgrade
  by_cases hne : (stepRaw s op).1.current = s.current
  · simp [hne]
  · have hne' : (s.current != (stepRaw s op).1.current) = true := by
      simp only [bne_iff_ne, ne_eq]; exact fun h => hne h.symm
    simp only [hne', ↓reduceIte]
    cases hc : findEp (stepRaw s op).1.eps s.current with
    | none => rfl
    | some c =>
      cases hn : findEp (stepRaw s op).1.eps (stepRaw s op).1.current with
      | none => rfl
      | some n =>
        simp only
        by_cases hav : c.status = .available
        · simp only [hav, beq_self_eq_true, ↓reduceIte, decide_eq_true_eq]
          cases step_shape hi op with
          | idle _ hcur _ _ _ => exact absurd hcur hne
          | muc s1 hb hc1 _ _ heq =>
            have hf := muc_fields s1
            rw [heq, hf.1] at hc hn
            rw [muc_current] at hn
            rw [heq, muc_current] at hne
            rw [← hc1] at hc hne
            exact nextCur_no_downgrade hb.idInj hb.prioInj hne hc hav hn
          | sw s0 tid _ he hc0 _ _ _ heq =>
            rcases fireSwitch_cases s0 with hid | ⟨e, hfut, have', hsw, hguard⟩
            · rw [heq, hid] at hne; exact absurd hc0 hne
            · rw [heq, hsw] at hc hn hne
              simp only at hc hn hne
              rw [← hc0] at hc
              have hinj : ∀ a ∈ s0.eps, ∀ b ∈ s0.eps, a.id = b.id → a = b := by rw [he]; exact hi.idInj
              have hpinj : ∀ a ∈ s0.eps, ∀ b ∈ s0.eps, a.prio = b.prio → a.id = b.id := by rw [he]; exact hi.prioInj
              have hfe := findEp_some hfut
              have hcm := findEp_some hc
              rw [findEp_of_mem hinj hfe.1] at hn
              cases hn
              have hst : c.status ≠ .unavailable := by rw [hav]; simp
              have hge : ¬ c.prio < n.prio := fun hlt => hguard c hc ⟨hst, hlt⟩
              have : n.prio ≠ c.prio := by
                intro heq'
                have := hpinj n hfe.1 c hcm.1 heq'
                rw [hcm.2, hc0] at this
                exact hne this
              omega
        · have : (c.status == Status.available) = false := by simp [hav]
          simp [this]

/-- only a timer that is due can fire (so a recovery window lasts the full timeout) -/
theorem c14_fire_due_holds (s : St) (op : Op) : c14_fire_due s op (stepRaw s op).2 = true := by
  cases op with
  | fire tid =>
    simp only [c14_fire_due, stepRaw, opFire]
    cases hfind : s.timers.find? (fun t => t.tid == tid) with
    | none => simp
    | some t =>
      simp only
      by_cases hcan : canFire s.now t = true
      · have : t.due ≤ s.now := by simpa [canFire] using hcan
        cases t.kind <;> simp [hcan, this]
      · simp [hcan]
  | _ => rfl

/-! ## non-vacuity: a concrete runRaw reaches the interesting hypotheses -/

/-- a reachable state with a recovering, protected current endpoint and an available
    lower-priority endpoint (the premise of C14.2), checked by evaluation -/
example :
    let s := runRaw ((initRaw 20 40 ["a", "b"]).get (by decide)) [.setAvail "a" true, .setAvail "b" true, .setAvail "a" false]
    (findEp s.eps s.current).map (·.status) = some .recovering ∧ anyAvail s.eps = true ∧ s.current = "a" := by
  decide

end GcpVerif.ME
