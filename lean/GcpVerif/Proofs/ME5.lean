/-
Which endpoint ids a MultiEndpoint holds (helper for C16 `rpc_total`): after construction or
SetEndpoints exactly ids of the given list; availability reports never change the set.
-/
import GcpVerif.Proofs.ME4
namespace GcpVerif.ME

theorem addOrUpdate_ids_sub (l : List String) : ∀ (s : St) (i : Nat) (P : String → Prop),
    (∀ e ∈ s.eps, P e.id) → (∀ id ∈ l, P id) → ∀ e ∈ (addOrUpdate s l i).eps, P e.id := by
  induction l with
  | nil => intro s i P h _ e he; simpa [addOrUpdate] using h e he
  | cons x xs ih =>
    intro s i P h hl
    rw [addOrUpdate_cons]
    have hx : P x := hl x List.mem_cons_self
    have hxs : ∀ id ∈ xs, P id := fun id hid => hl id (List.mem_cons_of_mem _ hid)
    split
    · apply ih _ _ P _ hxs
      have hf := newEndpoint_fields s x i
      intro e he
      simp only [List.mem_append, List.mem_singleton] at he
      rcases he with he | he
      · rw [hf.1] at he; exact h e he
      · rw [he, hf.2.2.2.2.1]; exact hx
    · apply ih _ _ P _ hxs
      intro e he
      obtain ⟨a, ha, rfl⟩ := List.mem_map.mp he
      split
      · exact h a ha
      · exact h a ha

/-- after an accepted SetEndpoints the MultiEndpoint holds only ids of the new list -/
theorem opSetEndpoints_ids_sub (s : St) (l : List String) (hl : l ≠ []) :
    ∀ e ∈ (opSetEndpoints s l).1.eps, e.id ∈ l := by
  unfold opSetEndpoints
  have : l.isEmpty = false := by cases l with | nil => exact absurd rfl hl | cons _ _ => rfl
  simp only [this, Bool.false_eq_true, ↓reduceIte]
  rw [(muc_fields _).1]
  apply addOrUpdate_ids_sub l _ _ (fun id => id ∈ l)
  · intro e he
    simp only [dropObsolete, List.mem_filter] at he
    simpa using he.2
  · intro id hid; exact hid

theorem initLoop_ids_sub (l : List String) : ∀ (s : St) (i : Nat) (P : String → Prop),
    (∀ e ∈ s.eps, P e.id) → (∀ id ∈ l, P id) → ∀ e ∈ (initLoop s l i).eps, P e.id := by
  induction l with
  | nil => intro s i P h _ e he; simpa [initLoop] using h e he
  | cons x xs ih =>
    intro s i P h hl
    rw [initLoop_cons]
    apply ih _ _ P _ (fun id hid => hl id (List.mem_cons_of_mem _ hid))
    have hf := newEndpoint_fields s x i
    intro e he
    simp only [List.mem_append, List.mem_filter, List.mem_singleton] at he
    rcases he with he | he
    · rw [hf.1] at he; exact h e he.1
    · rw [he, hf.2.2.2.2.1]; exact hl x List.mem_cons_self

theorem init_ids_sub {r d : Int} {l : List String} {s : St} (h : initRaw r d l = some s) : ∀ e ∈ s.eps, e.id ∈ l := by
  cases l with
  | nil => simp [initRaw] at h
  | cons first rest =>
    simp only [initRaw, Option.some.injEq] at h
    subst h
    apply initLoop_ids_sub (first :: rest) _ _ (fun id => id ∈ first :: rest)
    · intro e he; cases he
    · intro id hid; exact hid

/-- an availability report does not change which ids the MultiEndpoint holds -/
theorem opSetAvail_ids (s : St) (id : String) (a : Bool) :
    ∀ e ∈ (opSetAvail s id a).eps, ∃ y ∈ s.eps, e.id = y.id := by
  unfold opSetAvail
  rw [(muc_fields _).1]
  unfold setEndpointAvailability
  cases findEp s.eps id with
  | none => intro e he; exact ⟨e, he, rfl⟩
  | some ee =>
    simp only
    have hupd : ∀ (f : Ep → Ep), (∀ x, (f x).id = x.id) → ∀ e ∈ updId s.eps ee.id f, ∃ y ∈ s.eps, e.id = y.id := by
      intro f hf e he
      obtain ⟨x, hx, rfl⟩ := mem_updId.mp he
      refine ⟨x, hx, ?_⟩
      split
      · exact hf x
      · rfl
    split
    · exact hupd _ (fun x => rfl)
    · split
      · intro e he; exact ⟨e, he, rfl⟩
      · split
        · exact hupd _ (fun x => rfl)
        · intro e he
          simp only [scheduleUnavailable, setStateEp, addTimer] at he
          obtain ⟨x1, hx1, rfl⟩ := mem_updId.mp he
          obtain ⟨y, hy, e1⟩ := hupd (touch .recovering s.now) (fun x => rfl) x1 hx1
          refine ⟨y, hy, ?_⟩
          rw [← e1]
          split <;> rfl

/-! ### the same at the API (`init`, `step`: arguments normalised first, F29/F30) -/

theorem api_step_reach {s : St} (op : Op) (h : Reach s) : Reach (step s op).1 := Reach.stepRaw (normOp op) h

theorem api_init_reach {r d : Int} {l : List String} {s : St} (h : init r d l = some s) : Reach s :=
  Reach.initRaw (r := max r 0) (d := max d 0) (Int.le_max_right r 0) (Int.le_max_right d 0) h

theorem eraseDups_ne_nil {l : List String} (h : l ≠ []) : l.eraseDups ≠ [] := by
  cases l with
  | nil => exact absurd rfl h
  | cons a as => rw [List.eraseDups_cons]; exact List.cons_ne_nil _ _

theorem api_setEndpoints_ids_sub (s : St) (l : List String) (hl : l ≠ []) :
    ∀ e ∈ (step s (.setEndpoints l)).1.eps, e.id ∈ l := fun e he =>
  List.mem_eraseDups.mp (opSetEndpoints_ids_sub s l.eraseDups (eraseDups_ne_nil hl) e he)

theorem api_init_ids_sub {r d : Int} {l : List String} {s : St} (h : init r d l = some s) : ∀ e ∈ s.eps, e.id ∈ l :=
  fun e he => List.mem_eraseDups.mp (init_ids_sub h e he)

theorem api_init_isSome (r d : Int) (a : String) (as : List String) : (init r d (a :: as)).isSome = true := by
  simp only [init]; rw [List.eraseDups_cons]; rfl

end GcpVerif.ME
