/-
C15 — "when an endpoint's pool loses or regains connectivity, routing follows": whenever the monitor
goroutine is blocked (nothing left for it to do), every MultiEndpoint has been told the pool's
*current* state — for every interleaving of state changes, monitor moves and status updates of
UpdateMultiEndpoints.
-/
import GcpVerif.Model.Monitor
import GcpVerif.Generated.Consts
namespace GcpVerif.Monitor

/-- while the monitor sleeps on `v`, `v` is what it told the MultiEndpoints, and what they believe -/
def Inv (s : St) : Prop := ∀ v, s.pc = .wait v → s.told = some v ∧ s.seen = some v

theorem inv_step {s : St} (h : Inv s) (st : Step) : Inv (step s st) := by
  cases st with
  | env c => intro v hv; exact h v hv
  | sync =>
    -- the status update wakes the monitor: it is not waiting afterwards
    intro v hv
    simp only [step] at hv
    cases hp : s.pc with
    | read => rw [hp] at hv; cases hv
    | notify w => rw [hp] at hv; cases hv
    | wait w => rw [hp] at hv; cases hv
  | mon =>
    cases hp : s.pc with
    | read => intro v hv; simp only [step, hp, Pc.wait.injEq] at hv; simp [step, hp, hv]
    | notify w =>
      intro v hv
      simp only [step, hp, Pc.wait.injEq] at hv
      simp [step, hp, hv]
    | wait w =>
      by_cases hc : (s.conn != w) = true
      · intro v hv; simp [step, hp, hc] at hv
      · intro v hv
        have e : step s .mon = s := by simp [step, hp, hc]
        rw [e] at hv ⊢; exact h v hv

theorem inv_run (c : Nat) (l : List Step) : Inv (run (init c) l) := by
  unfold run
  suffices h : ∀ s, Inv s → Inv (l.foldl step s) from h _ (by intro v hv; simp [init] at hv)
  induction l with
  | nil => intro s h; exact h
  | cons x xs ih => intro s h; exact ih _ (inv_step h x)

/-- **C15** no missed update: for every history of connection-state changes, monitor moves and status
    updates, if the monitor is blocked then the MultiEndpoints were last told exactly the connection's
    current state -/
theorem blocked_means_told (c : Nat) (l : List Step) (hb : blocked (run (init c) l) = true) :
    (run (init c) l).told = some (run (init c) l).conn := by
  have h := inv_run c l
  generalize run (init c) l = s at h hb
  unfold blocked at hb
  cases hp : s.pc with
  | read => rw [hp] at hb; cases hb
  | notify w => rw [hp] at hb; cases hb
  | wait w =>
    rw [hp] at hb
    have : s.conn = w := by simpa using hb
    rw [this]; exact (h w hp).1

/-- … and the monitor is never blocked for another reason: it can always move unless it sleeps on the
    current state -/
theorem progress (s : St) (hnb : blocked s = false) : step s .mon ≠ s := by
  unfold blocked at hnb
  simp only [step]
  cases hp : s.pc with
  | read => intro h; have := congrArg St.pc h; simp [hp] at this
  | notify w => intro h; have := congrArg St.pc h; simp [hp] at this
  | wait w =>
    rw [hp] at hnb
    have hne : (s.conn != w) = true := by simpa using hnb
    simp only [hne, ↓reduceIte]
    intro h; have := congrArg St.pc h; simp [hp] at this

/-- **C15** a report never contradicts the pool: what the monitor tells the MultiEndpoints is the state
    the connection is in at that very step (it cannot undo a newer report with an older sample) -/
theorem report_is_current (s : St) (hp : s.pc = .read) : (step s .mon).told = some s.conn := by
  simp [step, hp]

/-- (F35) with the loop the code had before — read, then tell after waiting for the lock — a status
    update in between was undone: the MultiEndpoints are told 0 while the pool is in state 1
    (kernel-checked history; the monitor corrects it one iteration later, which for a MultiEndpoint with
    a switching delay means a detour of that length) -/
theorem split_read_undoes_sync :
    let s := [Step.mon, .env 1, .sync, .mon].foldl stepSplit (init 0)
    s.conn = 1 ∧ s.told = some 0 := by decide

/-- (F36) with a status update that tells the pool's state and lets the monitor sleep, a state that
    comes and goes while the monitor is between `notify` and `WaitForStateChange` stays with the
    MultiEndpoints: the monitor is blocked on state 1, the pool is in state 1, the MultiEndpoints
    believe 0 — until the next change -/
theorem sync_read_missed_update :
    let s := [Step.mon, .env 0, .sync, .env 1].foldl stepSyncReads (init 1)
    blocked s = true ∧ s.conn = 1 ∧ s.told = some 0 := by decide

/-- the variant that re-reads the state for the wait misses an update (kernel-checked witness): the
    state changes between `notify` and the wait, and the monitor sleeps on a state nobody was told -/
theorem reread_misses_update :
    let s := [Step.mon, .env 1, .mon].foldl stepReread (init 0)
    blocked s = true ∧ s.told = some 0 ∧ s.conn = 1 := by decide

/-- **C15 (per run)** the monitor loop of the current sources obtains the state once per iteration, from
    `notify()`, and waits with that same value — the shape `step` models -/
theorem monitor_loop_shape : GcpVerif.Generated.monitorWaitsOnNotifiedState = true := by decide

/-- **C15 (per run, F35)** `notify` reads the state, remembers it, tells it and returns it under the
    GCPMultiEndpoint's read lock: reading and telling are one step with respect to the status update -/
theorem monitor_reads_state_under_lock : GcpVerif.Generated.monitorReadsStateUnderLock = true := by decide

/-- **C15 (per run, F36)** after telling the MultiEndpoints the pools' states, UpdateMultiEndpoints ends
    the current wait of every monitor (`wake`, the cancel function of the context the monitor passes to
    WaitForStateChange, handed over inside `notify` under the lock) -/
theorem status_update_wakes_monitors : GcpVerif.Generated.statusUpdateWakesMonitors = true := by decide

/-- **C15 (per run, F34)** the status update tells every MultiEndpoint of the options about that
    MultiEndpoint's own endpoints, in the order of its list (`GME.tellOwn` in the model) -/
theorem status_update_in_priority_order : GcpVerif.Generated.statusUpdateInPriorityOrder = true := by decide

/-- **C15 (when the call returns)** right after the status update the MultiEndpoints believe the state the
    pool is in at that moment -/
theorem sync_tells_current (s : St) : (step s .sync).told = some s.conn := rfl

end GcpVerif.Monitor
