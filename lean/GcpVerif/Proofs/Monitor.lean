/-
C15 — "when an endpoint's pool loses or regains connectivity, routing follows": whenever the monitor
goroutine is blocked (nothing left for it to do), every MultiEndpoint has been told the pool's
*current* state — for every interleaving of state changes and monitor moves.
-/
import GcpVerif.Model.Monitor
import GcpVerif.Generated.Consts
namespace GcpVerif.Monitor

/-- while the monitor sleeps on `v`, `v` is what it told the MultiEndpoints -/
def Inv (s : St) : Prop := ∀ v, s.pc = .wait v → s.told = some v

theorem inv_step {s : St} (h : Inv s) (st : Step) : Inv (step s st) := by
  cases st with
  | env c => intro v hv; exact h v hv
  | mon =>
    cases hp : s.pc with
    | read => intro v hv; simp [step, hp] at hv
    | notify w =>
      intro v hv
      simp only [step, hp, Pc.wait.injEq] at hv
      simp [step, hp, hv]
    | wait w =>
      by_cases hc : (s.conn != w) = true
      · intro v hv; simp [step, hp, hc] at hv
      · intro v hv
        have e : step s .mon = s := by simp [step, hp, hc]
        rw [e] at hv ⊢; exact h v hv

theorem inv_run (c : Nat) (l : List Step) : Inv (run (init c) l) := by
  unfold run
  suffices h : ∀ s, Inv s → Inv (l.foldl step s) from h _ (by intro v hv; simp [init] at hv)
  induction l with
  | nil => intro s h; exact h
  | cons x xs ih => intro s h; exact ih _ (inv_step h x)

/-- **C15** no missed update: for every history of connection-state changes and monitor moves, if the
    monitor is blocked then the MultiEndpoints were last told exactly the connection's current state -/
theorem blocked_means_told (c : Nat) (l : List Step) (hb : blocked (run (init c) l) = true) :
    (run (init c) l).told = some (run (init c) l).conn := by
  have h := inv_run c l
  generalize run (init c) l = s at h hb
  unfold blocked at hb
  cases hp : s.pc with
  | read => rw [hp] at hb; cases hb
  | notify w => rw [hp] at hb; cases hb
  | wait w =>
    rw [hp] at hb
    have : s.conn = w := by simpa using hb
    rw [this]; exact h w hp

/-- … and the monitor is never blocked for another reason: it can always move unless it sleeps on the
    current state -/
theorem progress (s : St) (hnb : blocked s = false) : step s .mon ≠ s := by
  unfold blocked at hnb
  simp only [step]
  cases hp : s.pc with
  | read => intro h; have := congrArg St.pc h; simp [hp] at this
  | notify w => intro h; have := congrArg St.pc h; simp [hp] at this
  | wait w =>
    rw [hp] at hnb
    have hne : (s.conn != w) = true := by simpa using hnb
    simp only [hne, ↓reduceIte]
    intro h; have := congrArg St.pc h; simp [hp] at this

/-- the variant that re-reads the state for the wait misses an update (kernel-checked witness): the
    state changes between `notify` and the wait, and the monitor sleeps on a state nobody was told -/
theorem reread_misses_update :
    let s := [Step.mon, .env 1, .mon].foldl stepReread (init 0)
    blocked s = true ∧ s.told = some 0 ∧ s.conn = 1 := by decide

/-- **C15 (per run)** the monitor loop of the current sources reads the state once per iteration and
    notifies and waits with that same value — the shape `step` models -/
theorem monitor_loop_shape : GcpVerif.Generated.monitorWaitsOnNotifiedState = true := by decide

end GcpVerif.Monitor
