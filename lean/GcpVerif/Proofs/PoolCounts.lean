/-
Counting lemmas for the connection-state table (helper file for C04).
-/
import GcpVerif.Proofs.AList
import GcpVerif.Spec.Pool
namespace GcpVerif.Pool

def ind (b : Bool) : Nat := if b then 1 else 0

theorem countState_nil (x : CState) : countState [] x = 0 := rfl

theorem countState_cons (p : Sc × CState) (l : List (Sc × CState)) (x : CState) :
    countState (p :: l) x = ind (p.2 == x) + countState l x := by
  simp only [countState, List.filter_cons, ind]
  split <;> simp <;> omega

theorem countState_append (a b : List (Sc × CState)) (x : CState) :
    countState (a ++ b) x = countState a x + countState b x := by
  simp [countState, List.filter_append]

/-- removing the entry of `k` lowers the count of its state by one -/
theorem countState_erase {l : List (Sc × CState)} (hnd : (keys l).Nodup) {k : Sc} {old : CState}
    (h : lookup l k = some old) (x : CState) :
    countState l x = countState (erase l k) x + ind (old == x) := by
  induction l with
  | nil => simp [lookup] at h
  | cons p l ih =>
    rw [lookup_cons] at h
    simp only [keys_cons, List.nodup_cons] at hnd
    by_cases hk : p.1 = k
    · have hbeq : (p.1 == k) = true := by simpa using hk
      simp only [hbeq, ↓reduceIte, Option.some.injEq] at h
      -- k does not occur in the tail
      have hnot : k ∉ keys l := by rw [← hk]; exact hnd.1
      have herase : erase (p :: l) k = l := by
        unfold erase
        simp only [List.filter_cons, hbeq, Bool.not_true, Bool.false_eq_true, ↓reduceIte]
        rw [List.filter_eq_self]
        intro q hq
        have : q.1 ≠ k := fun heq => hnot (by rw [← heq]; exact List.mem_map_of_mem (f := (·.1)) hq)
        simpa using this
      rw [herase, countState_cons, h]; omega
    · have hbeq : (p.1 == k) = false := by simpa using hk
      simp only [hbeq, Bool.false_eq_true, ↓reduceIte] at h
      have herase : erase (p :: l) k = p :: erase l k := by
        unfold erase; simp [List.filter_cons, hbeq]
      rw [herase, countState_cons, countState_cons, ih hnd.2 h]; omega

theorem countState_erase_absent {l : List (Sc × CState)} {k : Sc} (h : k ∉ keys l) (x : CState) :
    countState (erase l k) x = countState l x := by
  have : erase l k = l := by
    unfold erase
    rw [List.filter_eq_self]
    intro q hq
    have : q.1 ≠ k := fun heq => h (by rw [← heq]; exact List.mem_map_of_mem (f := (·.1)) hq)
    simpa using this
  rw [this]

/-- inserting a fresh key adds one to the count of its state -/
theorem countState_insert_fresh {l : List (Sc × CState)} {k : Sc} (h : k ∉ keys l) (v x : CState) :
    countState (insert l k v) x = countState l x + ind (v == x) := by
  rw [insert_of_not_mem h, countState_append, countState_cons, countState_nil]
  show countState l x + (ind (v == x) + 0) = countState l x + ind (v == x)
  omega

theorem map_upd_absent {l : List (Sc × CState)} {k : Sc} (h : k ∉ keys l) (v : CState) :
    (l.map fun q => if (q.1 == k) = true then (k, v) else q) = l := by
  induction l with
  | nil => rfl
  | cons p l ih =>
    simp only [keys_cons, List.mem_cons, not_or] at h
    have : (p.1 == k) = false := by simpa using fun heq => h.1 heq.symm
    simp only [List.map_cons, this, Bool.false_eq_true, ↓reduceIte, ih h.2]

/-- overwriting the entry of `k`: its old state loses one, the new state gains one -/
theorem countState_insert_existing {l : List (Sc × CState)} (hnd : (keys l).Nodup) {k : Sc} {old : CState}
    (h : lookup l k = some old) (v x : CState) :
    countState (insert l k v) x = countState (erase l k) x + ind (v == x) := by
  have hmem : k ∈ keys l := lookup_isSome.mp (by rw [h]; rfl)
  rw [insert_of_mem hmem]
  clear h
  induction l with
  | nil => simp [keys] at hmem
  | cons p l ih =>
    simp only [keys_cons, List.nodup_cons] at hnd
    simp only [List.map_cons]
    by_cases hk : p.1 = k
    · have hbeq : (p.1 == k) = true := by simpa using hk
      have hnot : k ∉ keys l := by rw [← hk]; exact hnd.1
      have herase : erase (p :: l) k = l := by
        unfold erase
        simp only [List.filter_cons, hbeq, Bool.not_true, Bool.false_eq_true, ↓reduceIte]
        rw [List.filter_eq_self]
        intro q hq
        have : q.1 ≠ k := fun heq => hnot (by rw [← heq]; exact List.mem_map_of_mem (f := (·.1)) hq)
        simpa using this
      simp only [hbeq, ↓reduceIte]
      rw [map_upd_absent hnot, herase, countState_cons]
      show ind (v == x) + countState l x = countState l x + ind (v == x)
      omega
    · have hbeq : (p.1 == k) = false := by simpa using hk
      have hmem' : k ∈ keys l := by
        simp only [keys_cons, List.mem_cons] at hmem
        rcases hmem with h' | h'
        · exact absurd h'.symm hk
        · exact h'
      have herase : erase (p :: l) k = p :: erase l k := by
        unfold erase; simp [List.filter_cons, hbeq]
      simp only [hbeq, Bool.false_eq_true, ↓reduceIte]
      rw [herase, countState_cons, countState_cons, ih hnd.2 hmem']; omega

end GcpVerif.Pool
