/-
C13.3 / C13.5 (and the timer invariant M4 they need): the delayed-switch target.

`J`: whenever `future` names an available endpoint, either it is the highest-priority available
endpoint, or the guard of the delayed-switch closure blocks (the current endpoint is still usable
and outranks it).  `maybeUpdateCurrent` establishes `J` from any state, the timer closure keeps it.
-/
import GcpVerif.Proofs.ME
namespace GcpVerif.ME

def J (s : St) : Prop :=
  ∀ e, findEp s.eps s.future = some e → e.status = .available →
    topAvail s.eps = some e ∨
    ∃ c, findEp s.eps s.current = some c ∧ c.status ≠ .unavailable ∧ c.prio < e.prio

theorem muc_cases (s : St) :
    topAvail s.eps = none ∨
    (∃ c T, findEp s.eps s.current = some c ∧ topAvail s.eps = some T ∧ isProtected (some c) (some T) = true ∧
      maybeUpdateCurrent s = s) ∨
    (∃ T, topAvail s.eps = some T ∧ (maybeUpdateCurrent s).current = T.id ∧ (maybeUpdateCurrent s).eps = s.eps) ∨
    (∃ T, topAvail s.eps = some T ∧ (maybeUpdateCurrent s).future = T.id ∧ (maybeUpdateCurrent s).eps = s.eps ∧
      (maybeUpdateCurrent s).current = s.current) := by
  rw [muc_eq]
  cases hT : topAvail s.eps with
  | none => left; rfl
  | some T =>
    right
    have hsw : ∀ f, ((switchFromTo s f T).current = T.id ∧ (switchFromTo s f T).eps = s.eps) ∨
        ((switchFromTo s f T).future = T.id ∧ (switchFromTo s f T).eps = s.eps ∧ (switchFromTo s f T).current = s.current) := by
      intro f
      unfold switchFromTo
      by_cases h1 : (s.current == T.id) = true
      · left; simp only [h1, ↓reduceIte]; exact ⟨by simpa using h1, trivial⟩
      · by_cases h2 : (s.d == 0 || goneOrUnavailable f) = true
        · left; simp [h1, h2]
        · right; simp [h1, h2, addTimer]
    cases hc : findEp s.eps s.current with
    | none =>
      simp only
      rcases hsw none with h | h
      · right; left; exact ⟨T, rfl, h⟩
      · right; right; exact ⟨T, rfl, h⟩
    | some c =>
      simp only
      by_cases hp : isProtected (some c) (some T) = true
      · left; exact ⟨c, T, rfl, rfl, hp, by simp [hp]⟩
      · simp only [hp, Bool.false_eq_true, ↓reduceIte]
        rcases hsw (some c) with h | h
        · right; left; exact ⟨T, rfl, h⟩
        · right; right; exact ⟨T, rfl, h⟩

/-- with pairwise distinct priorities, an available endpoint other than the top one is outranked -/
theorem below_top {eps : List Ep} (hid : ∀ a ∈ eps, ∀ b ∈ eps, a.id = b.id → a = b)
    (hp : ∀ a ∈ eps, ∀ b ∈ eps, a.prio = b.prio → a.id = b.id) {T e : Ep}
    (hT : topAvail eps = some T) (he : e ∈ eps) (hav : e.status = .available) (hne : e ≠ T) : T.prio < e.prio := by
  have hle := topAvail_min hT e he hav
  have hTm := (topAvail_mem hT).1
  have : T.prio ≠ e.prio := fun heq => hne (hid e he T hTm (hp T hTm e he heq).symm)
  omega

theorem muc_J {s : St} (hb : Base s) : J (maybeUpdateCurrent s) := by
  intro e hfe hav
  rcases muc_cases s with h | ⟨c, T, hc, hT, hp, heq⟩ | ⟨T, hT, hcur, heps⟩ | ⟨T, hT, hfut, heps, hcur⟩
  · -- nothing is available
    have hf := muc_fields s
    rw [hf.1] at hfe
    exact absurd hav (topAvail_eq_none.mp h e (findEp_some hfe).1)
  · -- the recovering current endpoint outranks every available one
    rw [heq] at hfe ⊢
    have hem := (findEp_some hfe).1
    have hle := topAvail_min hT e hem hav
    unfold isProtected at hp
    simp only [Bool.and_eq_true, beq_iff_eq, decide_eq_true_eq] at hp
    right
    exact ⟨c, hc, by rw [hp.1]; simp, by omega⟩
  · -- current is the top available endpoint
    rw [heps] at hfe ⊢
    have hem := (findEp_some hfe).1
    have hTm := topAvail_mem hT
    by_cases heT : e = T
    · left; rw [heT]; exact hT
    · right
      refine ⟨T, ?_, by rw [hTm.2]; simp, below_top hb.idInj hb.prioInj hT hem hav heT⟩
      rw [hcur]; exact findEp_of_mem hb.idInj hTm.1
  · -- the target just recorded is the top available endpoint
    rw [heps] at hfe ⊢
    rw [hfut] at hfe
    have hTm := topAvail_mem hT
    rw [findEp_of_mem hb.idInj hTm.1] at hfe
    cases hfe
    left; exact hT

theorem fireSwitch_J {s0 : St} (hj : J s0) : J (fireSwitch s0) := by
  rcases fireSwitch_cases s0 with hid' | ⟨e, hfut, hav, hsw, hguard⟩
  · rw [hid']; exact hj
  · rw [hsw]
    intro e' hfe' hav'
    simp only at hfe' ⊢
    rw [hfut] at hfe'
    cases hfe'
    rcases hj e hfut hav with h | ⟨c, hc, hst, hlt⟩
    · left; exact h
    · exact absurd ⟨hst, hlt⟩ (hguard c hc)

theorem J_step {s : St} (h : Inv s) (hj : J s) (op : Op) : J (stepRaw s op).1 := by
  cases step_shape h op with
  | idle he hc _ _ hf =>
    intro e hfe hav
    rw [he, hf] at hfe
    rw [he, hc]
    exact hj e hfe hav
  | muc s1 hb _ _ _ heq => rw [heq]; exact muc_J hb
  | sw s0 tid _ he hc hf _ _ heq =>
    rw [heq]
    apply fireSwitch_J
    · intro e hfe hav
      rw [he, hf] at hfe
      rw [he, hc]
      exact hj e hfe hav

theorem J_init {r d : Int} {l : List String} {s : St} (hr : 0 ≤ r) (hd : 0 ≤ d) (h : initRaw r d l = some s) : J s := by
  intro e hfe hav
  -- nothing is available right after construction
  exfalso
  have hi := inv_init hr hd h
  cases l with
  | nil => simp [initRaw] at h
  | cons first rest =>
    simp only [initRaw, Option.some.injEq] at h
    subst h
    let s0 : St := { r := r, d := d, eps := [], orphans := [], current := first, future := "",
                     timers := [], now := 0, nextObj := 0, nextTid := 0 }
    have h0 : InitInv s0 0 := by constructor <;> simp [s0]
    obtain ⟨j, hj⟩ := initLoop_inv (l := first :: rest) h0
    exact hj.noAvail e (findEp_some hfe).1 hav

theorem reach_J {s : St} (h : Reach s) : J s := by
  induction h with
  | initRaw hr hd hi => exact J_init hr hd hi
  | stepRaw op hr ih => exact J_step (reach_inv hr) ih op

/-- **C13.3** whenever an operation changes `current` while some endpoint is available, the new
    current endpoint is the highest-priority available one — also when the change is made by a
    delayed-switch timer armed any number of reports, reorders and recoveries earlier -/
theorem c13_switch_top_holds {s : St} (h : Reach s) (op : Op) : c13_switch_top s (stepRaw s op).1 = true := by
  have hi := reach_inv h
  have hj := reach_J h
  unfold c13_switch_top
  by_cases hch : (s.current != (stepRaw s op).1.current && anyAvail (stepRaw s op).1.eps) = true
  · simp only [hch, ↓reduceIte]
    simp only [Bool.and_eq_true, bne_iff_ne, ne_eq] at hch
    obtain ⟨hne, hav⟩ := hch
    cases step_shape hi op with
    | idle _ hcur _ _ _ => exact absurd hcur.symm hne
    | muc s1 hb hc1 _ _ heq =>
      have hf := muc_fields s1
      rw [heq] at hne hav ⊢
      rw [hf.1] at hav ⊢
      rw [muc_current] at hne ⊢
      have hne' : nextCur s1.eps s1.current s1.d ≠ s1.current := by
        intro h; apply hne; rw [h, hc1]
      obtain ⟨t, ht, hnt⟩ := nextCur_switch_top hne' hav
      rw [ht]; simp [hnt]
    | sw s0 tid _ he hc hf _ _ heq =>
      rcases fireSwitch_cases s0 with hid | ⟨e, hfut, have', hsw, hguard⟩
      · rw [heq, hid] at hne; exact absurd hc.symm hne
      · rw [heq, hsw]
        simp only
        have hj0 : J s0 := by
          intro e' hfe' hav'
          rw [he, hf] at hfe'
          rw [he, hc]
          exact hj e' hfe' hav'
        rcases hj0 e hfut have' with htop | ⟨c, hcf, hst, hlt⟩
        · rw [htop]; simp
        · exact absurd ⟨hst, hlt⟩ (hguard c hcf)
  · simp only [hch, Bool.false_eq_true, ↓reduceIte]

/-! ### C13.5: no switching delay -/

theorem higherAvail_iff {eps : List Ep} {t : Ep} (hT : topAvail eps = some t) (p : Nat) :
    higherAvail eps p = true ↔ t.prio < p := by
  have hm := topAvail_mem hT
  unfold higherAvail
  simp only [List.any_eq_true, Bool.and_eq_true, decide_eq_true_eq]
  constructor
  · rintro ⟨e, he, hav, hlt⟩
    have := topAvail_min hT e he (by simpa [isAvail] using hav)
    omega
  · intro hlt
    exact ⟨t, hm.1, by simp [isAvail, hm.2], hlt⟩

theorem higherAvail_none {eps : List Ep} (hT : topAvail eps = none) (p : Nat) : higherAvail eps p = false := by
  have := topAvail_eq_none.mp hT
  unfold higherAvail
  simp only [List.any_eq_false, Bool.and_eq_true, decide_eq_true_eq, not_and]
  intro e he hav
  exact absurd (by simpa [isAvail] using hav) (this e he)

/-- for `d = 0` the value `maybeUpdateCurrent` gives `current` is the sentence of C13 -/
theorem nextCur_d0 {eps : List Ep} (hne : eps ≠ [])
    (hid : ∀ a ∈ eps, ∀ b ∈ eps, a.id = b.id → a = b)
    (hp : ∀ a ∈ eps, ∀ b ∈ eps, a.prio = b.prio → a.id = b.id) (cur : String) :
    d0Target cur eps = some (nextCur eps cur 0) := by
  unfold d0Target nextCur
  cases hc : findEp eps cur with
  | none =>
    cases hT : topAvail eps with
    | some t => rfl
    | none =>
      cases hto : topOf eps with
      | none => exact absurd (topOf_eq_none.mp hto) hne
      | some t => rfl
  | some c =>
    have hcm := findEp_some hc
    cases hT : topAvail eps with
    | none =>
      simp only [higherAvail_none hT, Bool.not_false, Bool.and_true]
      split
      · rw [hcm.2]
      · rfl
    | some t =>
      have htm := topAvail_mem hT
      simp only
      by_cases hrec : c.status = .recovering
      · -- a recovering endpoint is not the (available) top one, so priorities differ
        have hne' : t.prio ≠ c.prio := by
          intro heq
          have := hid t htm.1 c hcm.1 (hp t htm.1 c hcm.1 heq)
          rw [this, hrec] at htm; exact absurd htm.2 (by simp)
        by_cases hlt : t.prio < c.prio
        · have hh : higherAvail eps c.prio = true := (higherAvail_iff hT _).mpr hlt
          have hpr : isProtected (some c) (some t) = false := by
            unfold isProtected; simp [hrec]; omega
          simp only [hrec, beq_self_eq_true, hh, Bool.not_true, Bool.and_false, Bool.false_eq_true, ↓reduceIte, hpr, true_or]
          by_cases hct : cur = t.id
          · simp [hct]
          · simp [hct]
        · have hh : higherAvail eps c.prio = false := by
            cases h : higherAvail eps c.prio with
            | false => rfl
            | true => exact absurd ((higherAvail_iff hT _).mp h) hlt
          have hpr : isProtected (some c) (some t) = true := by
            unfold isProtected; simp [hrec]; omega
          simp only [hrec, beq_self_eq_true, hh, Bool.not_false, Bool.and_self, ↓reduceIte, hpr]
          rw [hcm.2]
      · have hb : (c.status == Status.recovering) = false := by simpa using hrec
        have hpr : isProtected (some c) (some t) = false := by unfold isProtected; simp [hb]
        simp only [hb, Bool.false_and, Bool.false_eq_true, ↓reduceIte, hpr, true_or]
        by_cases hct : cur = t.id
        · simp [hct]
        · simp [hct]

/-- applying the rule twice changes nothing -/
theorem nextCur_idem {eps : List Ep} (hne : eps ≠ [])
    (hid : ∀ a ∈ eps, ∀ b ∈ eps, a.id = b.id → a = b) (cur : String) :
    nextCur eps (nextCur eps cur 0) 0 = nextCur eps cur 0 := by
  have key : ∀ t : Ep, t ∈ eps → topAvail eps = some t → nextCur eps t.id 0 = t.id := by
    intro t htm hT
    unfold nextCur
    rw [findEp_of_mem hid htm, hT]
    simp only
    split
    · rfl
    · simp
  cases hc : findEp eps cur with
  | none =>
    cases hT : topAvail eps with
    | some t =>
      have h1 : nextCur eps cur 0 = t.id := by unfold nextCur; rw [hc, hT]
      rw [h1]; exact key t (topAvail_mem hT).1 hT
    | none =>
      cases hto : topOf eps with
      | none => exact absurd (topOf_eq_none.mp hto) hne
      | some t =>
        have h1 : nextCur eps cur 0 = t.id := by unfold nextCur; rw [hc, hT, hto]
        rw [h1]
        unfold nextCur
        rw [findEp_of_mem hid (topOf_mem hto), hT]
  | some c =>
    cases hT : topAvail eps with
    | none =>
      have h1 : nextCur eps cur 0 = cur := by unfold nextCur; rw [hc, hT]
      rw [h1, h1]
    | some t =>
      by_cases hpr : isProtected (some c) (some t) = true
      · have h1 : nextCur eps cur 0 = cur := by unfold nextCur; rw [hc, hT]; simp [hpr]
        rw [h1, h1]
      · by_cases hct : cur = t.id
        · have h1 : nextCur eps cur 0 = cur := by unfold nextCur; rw [hc, hT]; simp [hpr, hct]
          rw [h1, h1]
        · have h1 : nextCur eps cur 0 = t.id := by unfold nextCur; rw [hc, hT]; simp [hpr, hct]
          rw [h1]; exact key t (topAvail_mem hT).1 hT

/-- with `d = 0`, `current` is always a fixed point of the rule -/
def K (s : St) : Prop := s.d = 0 → nextCur s.eps s.current 0 = s.current

theorem K_step {s : St} (h : Inv s) (hj : J s) (hk : K s) (op : Op) : K (stepRaw s op).1 := by
  intro hd0
  cases step_shape h op with
  | idle he hc _ hd _ => rw [he, hc]; exact hk (by rw [← hd]; exact hd0)
  | muc s1 hb hc1 _ hd1 heq =>
    have hf := muc_fields s1
    rw [heq] at hd0 ⊢
    rw [hf.2.2.1] at hd0
    rw [hf.1, muc_current, hd0]
    exact nextCur_idem hb.nonempty hb.idInj _
  | sw s0 tid _ he hc hf _ hd heq =>
    rw [heq] at hd0 ⊢
    rcases fireSwitch_cases s0 with hid | ⟨e, hfut, hav, hsw, hguard⟩
    · rw [hid] at hd0 ⊢; rw [he, hc]; exact hk (by rw [← hd]; exact hd0)
    · rw [hsw]
      simp only
      have hj0 : J s0 := by
        intro e' hfe' hav'
        rw [he, hf] at hfe'
        rw [he, hc]
        exact hj e' hfe' hav'
      have hinj : ∀ a ∈ s0.eps, ∀ b ∈ s0.eps, a.id = b.id → a = b := by rw [he]; exact h.idInj
      rcases hj0 e hfut hav with htop | ⟨c, hcf, hst, hlt⟩
      · unfold nextCur
        rw [findEp_of_mem hinj (findEp_some hfut).1, htop]
        simp only
        split
        · rfl
        · simp
      · exact absurd ⟨hst, hlt⟩ (hguard c hcf)

theorem K_init {r d : Int} {l : List String} {s : St} (hr : 0 ≤ r) (hd : 0 ≤ d) (h : initRaw r d l = some s) : K s := by
  intro _
  have hi := inv_init hr hd h
  obtain ⟨c, hc⟩ := hi.curMem
  -- nothing is available right after construction
  have hna : topAvail s.eps = none := by
    apply topAvail_eq_none.mpr
    cases l with
    | nil => simp [initRaw] at h
    | cons first rest =>
      simp only [initRaw, Option.some.injEq] at h
      subst h
      let s0 : St := { r := r, d := d, eps := [], orphans := [], current := first, future := "",
                       timers := [], now := 0, nextObj := 0, nextTid := 0 }
      have h0 : InitInv s0 0 := by constructor <;> simp [s0]
      obtain ⟨j, hj⟩ := initLoop_inv (l := first :: rest) h0
      exact hj.noAvail
  unfold nextCur
  rw [hc, hna]

theorem reach_K {s : St} (h : Reach s) : K s := by
  induction h with
  | initRaw hr hd hi => exact K_init hr hd hi
  | stepRaw op hr ih => exact K_step (reach_inv hr) (reach_J hr) ih op

/-- **C13.5** with no switching delay, after every operation `current` is exactly: the recovering
    current endpoint if no higher-priority endpoint is available, otherwise the highest-priority
    available endpoint, otherwise unchanged (the list's first endpoint if it was removed) -/
theorem c13_d0_holds {s : St} (h : Reach s) (op : Op) : c13_d0 s (stepRaw s op).1 = true := by
  have hi := reach_inv h
  have hk := reach_K h
  have hpost := inv_step hi op
  have hkpost := reach_K (Reach.stepRaw op h)
  unfold c13_d0
  by_cases hd0 : s.d = 0
  · have hb : (s.d == 0) = true := by simpa using hd0
    simp only [hb, ↓reduceIte, beq_iff_eq]
    rw [nextCur_d0 hpost.nonempty hpost.idInj hpost.prioInj]
    congr 1
    cases step_shape hi op with
    | idle he hc _ _ _ => rw [he, hc]; exact hk hd0
    | muc s1 hb1 hc1 _ hd1 heq =>
      have hf := muc_fields s1
      rw [heq, hf.1, muc_current, ← hc1, hd1, hd0]
    | sw s0 tid _ he hc hf _ hd heq =>
      rcases fireSwitch_cases s0 with hid | ⟨e, hfut, hav, hsw, hguard⟩
      · rw [heq, hid, he, hc]; exact hk hd0
      · -- the timer switches: by `J` its target is the top available endpoint, and the guard says
        -- the old current endpoint does not outrank it
        have hj0 : J s0 := by
          intro e' hfe' hav'
          rw [he, hf] at hfe'
          rw [he, hc]
          exact reach_J h e' hfe' hav'
        rw [heq, hsw]
        simp only
        rcases hj0 e hfut hav with htop | ⟨c, hcf, hst, hlt⟩
        · rw [← hc]
          unfold nextCur
          rw [htop]
          cases hcc : findEp s0.eps s0.current with
          | none => rfl
          | some c =>
            simp only
            have hg := hguard c hcc
            by_cases hpr : isProtected (some c) (some e) = true
            · -- protected means recovering and outranking: the guard would have blocked
              unfold isProtected at hpr
              simp only [Bool.and_eq_true, beq_iff_eq, decide_eq_true_eq] at hpr
              exact absurd ⟨by rw [hpr.1]; simp, hpr.2⟩ hg
            · simp only [hpr, Bool.false_eq_true, ↓reduceIte, true_or]
              split <;> simp_all
        · exact absurd ⟨hst, hlt⟩ (hguard c hcf)
  · have hb : (s.d == 0) = false := by simpa using hd0
    simp [hb]

/-! ### C14.3: a repeated "unavailable" report -/

/-- in every reachable state `current` is a fixed point of `maybeUpdateCurrent` -/
theorem reach_stable {s : St} (h : Reach s) : nextCur s.eps s.current s.d = s.current := by
  have hi := reach_inv h
  by_cases hd : s.d = 0
  · rw [hd]; exact reach_K h hd
  · obtain ⟨c, hc⟩ := hi.curMem
    unfold nextCur
    rw [hc]
    cases hT : topAvail s.eps with
    | none => rfl
    | some t =>
      simp only
      split
      · rfl
      · split
        · rfl
        · split
          · rename_i hor
            rcases hor with h0 | hun
            · exact absurd h0 hd
            · -- an unavailable current endpoint means nothing is available (M5)
              exact absurd (topAvail_mem hT).2 (hi.m5 c hc hun t (topAvail_mem hT).1)
          · rfl

theorem muc_timers (s : St) :
    (maybeUpdateCurrent s).timers = s.timers ∨
    ∃ t, t.kind = .switch ∧ (maybeUpdateCurrent s).timers = s.timers ++ [t] := by
  rw [muc_eq]
  have hsw : ∀ f t, (switchFromTo s f t).timers = s.timers ∨
      ∃ x, x.kind = .switch ∧ (switchFromTo s f t).timers = s.timers ++ [x] := by
    intro f t
    unfold switchFromTo
    split
    · left; rfl
    · split
      · left; rfl
      · right; exact ⟨_, rfl, rfl⟩
  cases findEp s.eps s.current with
  | none =>
    cases topAvail s.eps with
    | none => simp only; cases topOf s.eps <;> (left; rfl)
    | some t => exact hsw none t
  | some c =>
    cases topAvail s.eps with
    | none => left; rfl
    | some t =>
      simp only
      split
      · left; rfl
      · exact hsw (some c) t

theorem muc_recovery_timers (s : St) :
    (liveTimers (maybeUpdateCurrent s)).filter isRecoveryTimer = (liveTimers s).filter isRecoveryTimer := by
  unfold liveTimers
  rcases muc_timers s with h | ⟨t, hk, h⟩
  · rw [h]
  · rw [h]
    simp only [List.filter_append, List.filter_cons, List.filter_nil]
    have : isRecoveryTimer t = false := by unfold isRecoveryTimer; rw [hk]
    split <;> simp [this]

/-- **C14.3** a repeated "unavailable" report — for an endpoint that is not available, or an unknown
    one — changes neither the endpoint table, nor `current`, nor any pending recovery timer: the
    recovery window is not extended -/
theorem c14_repeat_holds {s : St} (h : Reach s) (op : Op) : c14_repeat s op (stepRaw s op).1 = true := by
  unfold c14_repeat
  cases op with
  | setAvail e a =>
    cases a with
    | true => rfl
    | false =>
      simp only
      -- in the no-op case the call reduces to `maybeUpdateCurrent s`
      have hmain : setEndpointAvailability s e false = s →
          (List.map epView s.eps == List.map epView (stepRaw s (.setAvail e false)).1.eps &&
            (stepRaw s (.setAvail e false)).1.current == s.current &&
            List.filter isRecoveryTimer (liveTimers s) ==
              List.filter isRecoveryTimer (liveTimers (stepRaw s (.setAvail e false)).1)) = true := by
        intro hsea
        have hpost : (stepRaw s (.setAvail e false)).1 = maybeUpdateCurrent s := by
          simp only [stepRaw, opSetAvail]; rw [hsea]
        rw [hpost]
        have hf := muc_fields s
        rw [hf.1, muc_current, reach_stable h, muc_recovery_timers]
        simp
      cases hf : findEp s.eps e with
      | none =>
        simp only [↓reduceIte]
        apply hmain
        unfold setEndpointAvailability; rw [hf]
      | some x =>
        simp only
        by_cases hno : (x.status != .available) = true
        · simp only [hno, ↓reduceIte]
          apply hmain
          unfold setEndpointAvailability; rw [hf]; simp [hno]
        · simp [hno]
  | setEndpoints l => rfl
  | advance dt => rfl
  | fire tid => rfl

end GcpVerif.ME
