/-
C08 at reach level: the stand-in table.

`FbReady`: in every reachable state (no assumption on gRPC's reports) every entry of the temporary
fallback table names a connection that is recorded READY — through refreshes (the entry follows the
slot to the replacement, which takes over at the moment it is READY), state reports (a stand-in that
stops being READY loses its entries in the same step), growth and completions.

Consequences: with fallback_to_ready, a call for a bound key whose home channel is not READY is
placed on a READY channel whenever the current picker lists one (`fallback_places`), and on the
remembered stand-in if there is one (`fallback_sticky_ready`).
-/
import GcpVerif.Proofs.PoolReady
import GcpVerif.Proofs.PoolLocal
import GcpVerif.Proofs.PoolKeys
namespace GcpVerif.Pool

def FbReady (s : St) : Prop := ∀ p ∈ s.fallback, lookup s.scStates p.2 = some .ready

theorem fb_of_eq {s s' : St} (h : FbReady s) (e1 : s'.scStates = s.scStates) (e2 : s'.fallback = s.fallback) :
    FbReady s' := by
  intro p hp; rw [e1]; rw [e2] at hp; exact h p hp

theorem ccNew_fb (s : St) : (ccNewSubConn s).1.scStates = s.scStates ∧ (ccNewSubConn s).1.fallback = s.fallback := by
  unfold ccNewSubConn
  split
  · exact ⟨rfl, rfl⟩
  · split <;> exact ⟨rfl, rfl⟩

theorem modRef_fb (s : St) (i : Slot) (f : RefSt → RefSt) :
    (modRef s i f).scStates = s.scStates ∧ (modRef s i f).fallback = s.fallback := ⟨rfl, rfl⟩

theorem fb_addSubConn {s : St} (t : Tables s) (h : FbReady s) : FbReady (addSubConn s).1 := by
  unfold addSubConn
  have hf := ccNew_fb s
  have hfresh := ccNew_fields s
  generalize hr : ccNewSubConn s = r at hf hfresh ⊢
  obtain ⟨s1, o, ev⟩ := r
  cases o with
  | none => exact fb_of_eq h hf.1 hf.2
  | some sc =>
    simp only at hf ⊢
    intro p hp
    simp only at hp
    rw [hf.2] at hp
    have hp' := h p hp
    have hne : sc ≠ p.2 := by
      intro heq
      -- the new connection id is fresh: it is in no table
      have hsc : sc = s.nextSc := by
        unfold ccNewSubConn at hr
        split at hr
        · cases hr
        · split at hr
          · cases hr
          · cases hr; rfl
      have hmem : p.2 ∈ keys s.scStates := lookup_isSome.mp (by rw [hp']; rfl)
      have := t.freshS p.2 hmem
      rw [← heq, hsc] at this
      exact Nat.lt_irrefl _ this
    simp only
    rw [hf.1, lookup_insert_ne _ _ hne]
    exact hp'

theorem fb_refresh {s : St} (h : FbReady s) (slot : Slot) : FbReady (refresh s slot).1 := by
  unfold refresh
  cases getRef s slot with
  | none => exact h
  | some r =>
    simp only
    split
    · exact h
    · have hf := ccNew_fb (modRef s slot fun r => { r with refreshing := true })
      generalize ccNewSubConn (modRef s slot fun r => { r with refreshing := true }) = rr at hf ⊢
      obtain ⟨s1, o, ev⟩ := rr
      cases o with
      | none => exact fb_of_eq h hf.1 hf.2
      | some sc => exact fb_of_eq h hf.1 hf.2

theorem updateAll_fb (s : St) (scs : List Sc) :
    (updateAll s scs).1.scStates = s.scStates ∧ (updateAll s scs).1.fallback = s.fallback := by
  unfold updateAll
  suffices h : ∀ (acc : St × List Event),
      (scs.foldl (fun (acc : St × List Event) sc =>
        ({ acc.1 with scAddrs := insert acc.1.scAddrs sc acc.1.addrs }, acc.2 ++ [.upd sc acc.1.addrs, .connect sc])) acc).1.scStates = acc.1.scStates ∧
      (scs.foldl (fun (acc : St × List Event) sc =>
        ({ acc.1 with scAddrs := insert acc.1.scAddrs sc acc.1.addrs }, acc.2 ++ [.upd sc acc.1.addrs, .connect sc])) acc).1.fallback = acc.1.fallback from h (s, [])
  induction scs with
  | nil => intro acc; exact ⟨rfl, rfl⟩
  | cons x xs ih => intro acc; simp only [List.foldl_cons]; exact ih _

theorem place_fb (s : St) (call : Nat) (slot : Slot) (cmd : Cmd) (loc : Loc) (key : String) (ctx : CtxKind) (dl : Option Int) :
    (place s call slot cmd loc key ctx dl).1.scStates = s.scStates ∧
    (place s call slot cmd loc key ctx dl).1.fallback = s.fallback := by
  unfold place
  cases getRef s slot <;> exact ⟨rfl, rfl⟩

theorem bump_fb (s : St) (sc : Sc) (d : Int) :
    (bumpAffinity s sc d).scStates = s.scStates ∧ (bumpAffinity s sc d).fallback = s.fallback := by
  unfold bumpAffinity
  cases lookup s.scRefs sc <;> exact ⟨rfl, rfl⟩

theorem bind_fb (s : St) (k : String) (sc : Sc) :
    (bindSubConn s k sc).scStates = s.scStates ∧ (bindSubConn s k sc).fallback = s.fallback := by
  unfold bindSubConn
  have h1 := bump_fb (addBinding s k sc) sc 1
  have h2 : (addBinding s k sc).scStates = s.scStates ∧ (addBinding s k sc).fallback = s.fallback := by
    unfold addBinding; cases lookup s.affinity k <;> exact ⟨rfl, rfl⟩
  exact ⟨h1.1.trans h2.1, h1.2.trans h2.2⟩

theorem foldl_bind_fb (ks : List String) (sc : Sc) (s : St) :
    (ks.foldl (fun s k => bindSubConn s k sc) s).scStates = s.scStates ∧
    (ks.foldl (fun s k => bindSubConn s k sc) s).fallback = s.fallback := by
  induction ks generalizing s with
  | nil => exact ⟨rfl, rfl⟩
  | cons k ks ih =>
    simp only [List.foldl_cons]
    have h1 := ih (bindSubConn s k sc)
    have h2 := bind_fb s k sc
    exact ⟨h1.1.trans h2.1, h1.2.trans h2.2⟩

theorem unbind_fb (s : St) (k : String) :
    (unbindSubConn s k).scStates = s.scStates ∧ (unbindSubConn s k).fallback = s.fallback := by
  unfold unbindSubConn
  cases lookup s.affinity k with
  | none => exact ⟨rfl, rfl⟩
  | some sc => exact bump_fb s sc (-1)

/-- a slot of the current picker's list holds a connection recorded READY -/
theorem picker_slot_ready {s : St} (t : Tables s) (hh : Half s) (hr : Rdy s) {l : List Slot} (hl : s.picker = .gcp l)
    {slot : Slot} (hm : slot ∈ l) {r : RefSt} (hg : getRef s slot = some r) :
    lookup s.scStates r.subConn = some .ready := by
  have hperm := hr l hl
  have hin : slot ∈ readySlots s := hperm.mem_iff.mp hm
  rw [readySlots_def] at hin
  simp only [List.mem_filterMap, List.mem_filter] at hin
  obtain ⟨p, ⟨hp, hrdy⟩, hlk⟩ := hin
  have h1 := hh.refOf p.1 slot hlk
  have h2 := getRef_subAt hg
  rw [h1] at h2
  have heq : p.1 = r.subConn := by simpa using h2
  have hst : p.2 = .ready := by simpa [isRdy] using hrdy
  rw [← heq]
  have : (p.1, CState.ready) ∈ s.scStates := by rw [← hst]; exact hp
  exact lookup_of_mem t.ndS this

theorem fb_getReady {s : St} (t : Tables s) (hh : Half s) (hr : Rdy s) (h : FbReady s) (c : Cfg) (key : String) :
    FbReady (getReadySubConnRef s c key).1 := by
  unfold getReadySubConnRef
  cases lookup s.affinity key with
  | none => exact h
  | some sc =>
    simp only
    split
    · split
      · cases lookup s.fallback key with
        | some sc' => exact h
        | none =>
          simp only
          cases hp : s.picker with
          | gcp l =>
            simp only
            cases hlb : leastBusy s l with
            | none => exact h
            | some slot =>
              simp only
              cases hg : getRef s slot with
              | none => exact h
              | some r =>
                simp only
                intro p hpm
                simp only at hpm
                rcases mem_insert hpm with hpm | hpm
                · exact h p hpm
                · rw [hpm]
                  exact picker_slot_ready t hh hr hp (leastBusy_spec hlb).1 hg
          | errNoSc => exact h
          | errTF => exact h
      · exact h
    · exact h

theorem mem_repoint {l : List (String × Sc)} {old new : Sc} {p : String × Sc} (h : p ∈ repoint l old new) :
    (p ∈ l ∧ p.2 ≠ old) ∨ (p.2 = new ∧ (p.1, old) ∈ l) := by
  unfold repoint at h
  simp only [List.mem_map] at h
  obtain ⟨q, hq, rfl⟩ := h
  by_cases hqo : q.2 = old
  · right
    have : (q.2 == old) = true := by simpa using hqo
    simp only [this, ↓reduceIte]
    exact ⟨trivial, by rw [← hqo]; exact hq⟩
  · left
    have : (q.2 == old) = false := by simpa using hqo
    simp only [this, Bool.false_eq_true, ↓reduceIte]
    exact ⟨hq, hqo⟩

theorem fb_swap {s : St} (t : Tables s) (h : FbReady s) (sc : Sc) (slot : Slot)
    (hl : lookup s.refreshingMap sc = some slot) : FbReady (swap s sc slot).1 := by
  unfold swap
  cases hg : getRef s slot with
  | none => exact h
  | some r =>
    simp only
    have hscfresh : sc ∉ keys s.scStates := (t.freshF sc (lookup_isSome.mp (by rw [hl]; rfl))).2
    intro p hp
    simp only [modRef] at hp ⊢
    rcases mem_repoint hp with ⟨hp1, hne⟩ | ⟨hnew, hold⟩
    · have hp' := h p hp1
      have hne2 : sc ≠ p.2 := by
        intro heq
        exact hscfresh (heq ▸ lookup_isSome.mp (by rw [hp']; rfl))
      rw [lookup_insert_ne _ _ hne2, lookup_erase_ne _ (Ne.symm hne)]
      exact hp'
    · have hold' := h (p.1, r.subConn) hold
      simp only at hold'
      rw [hnew, lookup_insert_self]
      simp only [stateOf, hold', Option.getD_some]

theorem recordState_fb (s : St) (sc : Sc) (st : CState) : (recordState s sc st).1.fallback = s.fallback := by
  unfold recordState
  cases st <;> rfl

theorem lookup_recordState_ne (s : St) (sc : Sc) (st : CState) {x : Sc} (hne : sc ≠ x) :
    lookup (recordState s sc st).1.scStates x = lookup s.scStates x := by
  unfold recordState
  cases st <;> simp only <;> first
    | exact lookup_insert_ne _ _ hne
    | (rw [lookup_erase_ne _ hne]; exact lookup_insert_ne _ _ hne)

theorem lookup_recordState_self (s : St) (sc : Sc) (st : CState) (hst : st = .ready) :
    lookup (recordState s sc st).1.scStates sc = some .ready := by
  subst hst
  unfold recordState
  exact lookup_insert_self _ _ _

theorem recordTransition_fb (s : St) (a b : CState) :
    (recordTransition s a b).scStates = s.scStates ∧ (recordTransition s a b).fallback = s.fallback := by
  unfold recordTransition updCounter
  cases a <;> cases b <;> exact ⟨rfl, rfl⟩

theorem maybePublish_fb (s : St) (a b c : CState) (o : List Slot) :
    (maybePublish s a b c o).1.scStates = s.scStates ∧ (maybePublish s a b c o).1.fallback = s.fallback := by
  unfold maybePublish
  split
  · simp only [regeneratePicker]
    split <;> exact ⟨rfl, rfl⟩
  · exact ⟨rfl, rfl⟩

theorem cleanFallback_scStates (s : St) (sc : Sc) (a b : CState) : (cleanFallback s sc a b).scStates = s.scStates := by
  unfold cleanFallback
  simp only
  split <;> split <;> rfl

theorem mem_cleanFallback {s : St} {sc : Sc} {a b : CState} {p : String × Sc} (h : p ∈ (cleanFallback s sc a b).fallback) :
    p ∈ s.fallback ∧ ((a == .ready && b != .ready) = true → p.2 ≠ sc) := by
  unfold cleanFallback at h
  simp only at h
  by_cases h1 : (a == .ready && b != .ready) = true
  · simp only [h1, ↓reduceIte] at h
    split at h
    · simp only [List.mem_filter] at h
      exact ⟨h.1.1, fun _ => by simpa using h.1.2⟩
    · simp only [List.mem_filter] at h
      exact ⟨h.1, fun _ => by simpa using h.2⟩
  · simp only [h1, Bool.false_eq_true, ↓reduceIte] at h
    split at h
    · simp only [List.mem_filter] at h
      exact ⟨h.1, fun hc => absurd hc h1⟩
    · exact ⟨h, fun hc => absurd hc h1⟩

theorem fb_report {s : St} (h : FbReady s) (sc : Sc) (oldS st : CState) (order : List Slot)
    (hs : stateOf s sc = some oldS) : FbReady (report s sc oldS st order).1 := by
  unfold report
  simp only
  have e4 := maybePublish_fb (recordTransition (cleanFallback (recordState s sc st).1 sc oldS st) oldS st) oldS st
    (cleanFallback (recordState s sc st).1 sc oldS st).aggr order
  have e3 := recordTransition_fb (cleanFallback (recordState s sc st).1 sc oldS st) oldS st
  have e2 := cleanFallback_scStates (recordState s sc st).1 sc oldS st
  intro p hp
  rw [e4.2, e3.2] at hp
  rw [e4.1, e3.1, e2]
  obtain ⟨hp1, hcl⟩ := mem_cleanFallback hp
  rw [recordState_fb] at hp1
  have hp' := h p hp1
  by_cases hpe : sc = p.2
  · -- the reported connection is a stand-in: it was READY, so it stays in the table only if it still is
    have hold : oldS = .ready := by
      have : stateOf s sc = some .ready := by rw [hpe]; exact hp'
      rw [hs] at this; exact Option.some.inj this
    by_cases hst : st = .ready
    · rw [← hpe]; exact lookup_recordState_self s sc st hst
    · exfalso
      have : (oldS == .ready && st != .ready) = true := by simp [hold, hst]
      exact hcl this hpe.symm
  · rw [lookup_recordState_ne s sc st hpe]; exact hp'

theorem fbStages : Stages fun s s' => ((Tables s ∧ Half s) ∧ Rdy s) → FbReady s → FbReady s' where
  setAddrs s v := fun _ h => fb_of_eq h rfl rfl
  setCfg s _ := fun _ h => fb_of_eq h rfl rfl
  setFail s n := fun _ h => fb_of_eq h rfl rfl
  setNow s n := fun _ h => fb_of_eq h rfl rfl
  setRr s := fun _ h => fb_of_eq h rfl rfl
  setHeld s hl := fun _ h => fb_of_eq h rfl rfl
  addWaiter s w := fun _ h => fb_of_eq h rfl rfl
  dropWaiter s id := fun _ h => fb_of_eq h rfl rfl
  addSubConn s := fun t h => fb_addSubConn t.1.1 h
  refresh s slot := fun _ h => fb_refresh h slot
  updateAll s scs := fun _ h => fb_of_eq h (updateAll_fb s scs).1 (updateAll_fb s scs).2
  place s call slot cmd loc key ctx dl := fun _ h =>
    fb_of_eq h (place_fb s call slot cmd loc key ctx dl).1 (place_fb s call slot cmd loc key ctx dl).2
  getReady s c key := fun t h => fb_getReady t.1.1 t.1.2 t.2 h c key
  completeCall s call _ := fun _ h => fb_of_eq h (by unfold completeCall; rfl) (by unfold completeCall; rfl)
  detReset s slot := fun _ h => fb_of_eq h rfl rfl
  deInc s slot := fun _ h => fb_of_eq h rfl rfl
  bindAll s keys slot r _ := fun _ h => fb_of_eq h (foldl_bind_fb keys r.subConn s).1 (foldl_bind_fb keys r.subConn s).2
  unbind s key := fun _ h => fb_of_eq h (unbind_fb s key).1 (unbind_fb s key).2
  swap s sc slot hl := fun t h => fb_swap t.1.1 h sc slot hl
  report s sc oldS st order hs := fun _ h => fb_report h sc oldS st order hs

theorem fb_init (ci : CfgInput) : FbReady (init ci) := by intro p hp; simp [init] at hp

/-- **C08** in every reachable state every remembered stand-in is a connection recorded READY -/
theorem fbReady_run (ci : CfgInput) (ops : List Op) : FbReady (run (init ci) ops) :=
  (inv_run (((tablesStages.and halfStages).and rdyStages).and fbStages) ci
    ⟨⟨⟨tables_init ci, half_init ci⟩, rdy_init ci⟩, fb_init ci⟩ ops).2

/-! ### what a pick does with the table -/

/-- a connection recorded in the state table sits in a slot that holds it -/
theorem slot_of_recorded {s : St} (t : Tables s) (hh : Half s) {sc : Sc} {st : CState}
    (h : lookup s.scStates sc = some st) :
    ∃ slot r, lookup s.scRefs sc = some slot ∧ getRef s slot = some r ∧ r.subConn = sc := by
  have hk : sc ∈ keys s.scRefs := (t.keysEq sc).mp (lookup_isSome.mp (by rw [h]; rfl))
  have hs := lookup_isSome.mpr hk
  cases hl : lookup s.scRefs sc with
  | none => rw [hl] at hs; cases hs
  | some slot =>
    have hsub := hh.refOf sc slot hl
    unfold subAt at hsub
    cases hg : s.refs[slot]? with
    | none => rw [hg] at hsub; cases hsub
    | some r =>
      rw [hg] at hsub
      exact ⟨slot, r, rfl, hg, Option.some.inj hsub⟩

/-- a slot of the current picker's list exists in the slot list -/
theorem picker_slot_exists {s : St} (hh : Half s) (hr : Rdy s) {l : List Slot} (hl : s.picker = .gcp l)
    {slot : Slot} (hm : slot ∈ l) : ∃ r, getRef s slot = some r := by
  have hin : slot ∈ readySlots s := (hr l hl).mem_iff.mp hm
  rw [readySlots_def] at hin
  simp only [List.mem_filterMap, List.mem_filter] at hin
  obtain ⟨p, _, hlk⟩ := hin
  have hsub := hh.refOf p.1 slot hlk
  unfold subAt at hsub
  unfold getRef
  cases hg : s.refs[slot]? with
  | none => rw [hg] at hsub; cases hsub
  | some r => exact ⟨r, rfl⟩

/-- **C08 (state level)** fallback_to_ready on, the key is bound, its home connection is not READY,
    the current picker lists at least one channel: a BOUND call for the key — issued on any published
    picker that lists a channel, current or superseded — is placed (it is not told to wait, the pool
    does not grow), the connection it is placed on is recorded READY, and it is the remembered
    stand-in whenever there is one — whatever the load on any channel -/
theorem fallback_pick_ready_of {s : St} (t : Tables s) (hh : Half s) (hr : Rdy s) (hf : FbReady s)
    {c : Cfg} (hc : s.cfg = some c) (hm : c.methods = true) (hfb : c.fb = true)
    (call pn : Nat) (dl : Option Int) (key : String) (ks : List String) (hk : key ≠ "")
    (hfree : (callIdUsed s call || pickerBusy s pn) = false)
    {st : CState} {l : List Slot} (hp : s.published[pn]? = some (st, .gcp l)) (hl : l ≠ [])
    {home : Sc} (hb : lookup s.affinity key = some home) (hnr : isReadySc s home = false)
    {l0 : List Slot} (hcur : s.picker = .gcp l0) (hl0 : l0 ≠ []) :
    ∃ sc', (opPick s call pn "bound" .gcp dl (.msg ⟨key, ks⟩)).2 = [.placed sc'] ∧
      isReadySc s sc' = true ∧ (∀ sb, lookup s.fallback key = some sb → sc' = sb) := by
  have hne : l.isEmpty = false := by cases l with | nil => exact absurd rfl hl | cons _ _ => rfl
  have hrc : resolveCall c "bound" .gcp (.msg ⟨key, ks⟩) = (.bound, .key, some key) := by
    simp [resolveCall, methodCfg, hm, extract]
  have hkb : (key != "") = true := by simpa using hk
  have hnb : (Cmd.bound == Cmd.bind && c.rr) = false := by simp
  cases hfl : lookup s.fallback key with
  | some sb =>
    have hrdy := hf (key, sb) (lookup_some_mem hfl)
    obtain ⟨slot, r, hls, hg, hrs⟩ := slot_of_recorded t hh hrdy
    have hgr : getReadySubConnRef s c key = (s, some slot, true) := by
      rw [fallback_sticky hb hnr hfb hfl, hls]
    refine ⟨sb, ?_, by simp [isReadySc, stateOf, hrdy], fun sb' h' => (Option.some.inj h').symm ▸ rfl⟩
    unfold opPick
    simp only [hfree, Bool.false_eq_true, ↓reduceIte, hp, hc, hne, hrc]
    simp only [hnb, Bool.false_eq_true, ↓reduceIte, chooseSlot, hkb, hgr, finishPick, place, hg]
    simp only at hrs
    rw [hrs]; rfl
  | none =>
    cases hlb : leastBusy s l0 with
    | none => exact absurd (leastBusy_eq_none.mp hlb) hl0
    | some slot =>
      obtain ⟨r, hg⟩ := picker_slot_exists hh hr hcur (leastBusy_spec hlb).1
      have hrdy := picker_slot_ready t hh hr hcur (leastBusy_spec hlb).1 hg
      have hgr := fallback_new hb hnr hfb hfl hcur hlb hg
      refine ⟨r.subConn, ?_, by simp [isReadySc, stateOf, hrdy], fun sb h' => by cases h'⟩
      have hg' : getRef { s with fallback := insert s.fallback key r.subConn } slot = some r := hg
      unfold opPick
      simp only [hfree, Bool.false_eq_true, ↓reduceIte, hp, hc, hne, hrc]
      simp only [hnb, Bool.false_eq_true, ↓reduceIte, chooseSlot, hkb, hgr, finishPick, place, hg']
      rfl

/-- **C08** … after any history whatsoever (no assumption on gRPC's reports) -/
theorem fallback_pick_ready (ci : CfgInput) (ops : List Op)
    {c : Cfg} (hc : (run (init ci) ops).cfg = some c) (hm : c.methods = true) (hfb : c.fb = true)
    (call pn : Nat) (dl : Option Int) (key : String) (ks : List String) (hk : key ≠ "")
    (hfree : (callIdUsed (run (init ci) ops) call || pickerBusy (run (init ci) ops) pn) = false)
    {st : CState} {l : List Slot} (hp : (run (init ci) ops).published[pn]? = some (st, .gcp l)) (hl : l ≠ [])
    {home : Sc} (hb : lookup (run (init ci) ops).affinity key = some home)
    (hnr : isReadySc (run (init ci) ops) home = false)
    {l0 : List Slot} (hcur : (run (init ci) ops).picker = .gcp l0) (hl0 : l0 ≠ []) :
    ∃ sc', (opPick (run (init ci) ops) call pn "bound" .gcp dl (.msg ⟨key, ks⟩)).2 = [.placed sc'] ∧
      isReadySc (run (init ci) ops) sc' = true ∧
      (∀ sb, lookup (run (init ci) ops).fallback key = some sb → sc' = sb) :=
  fallback_pick_ready_of (th_run ci ops).1 (th_run ci ops).2 (rdy_run ci ops) (fbReady_run ci ops)
    hc hm hfb call pn dl key ks hk hfree hp hl hb hnr hcur hl0

/-- the premises are met by a real history: "k" is bound to connection 0, which then fails while
    connection 1 is READY; the BOUND call is served by connection 1, and again by connection 1 when
    connection 1 is meanwhile the busier one -/
def fbCfg : CfgInput := .given { min := 1, max := 2, wm := 1, fb := true, rr := false, uc := 0, ums := 0, methods := true }
def fbOps : List Op :=
  [.ccs 1, .scs 0 .ready [0], .pick 1 0 "bind" .gcp none (.msg ⟨"", []⟩),
   .done 1 .nil ⟨"k", []⟩, .pick 2 0 "plain" .gcp none (.msg ⟨"", []⟩), .pick 3 0 "plain" .gcp none (.msg ⟨"", []⟩),
   .scs 0 .tf [], .scs 1 .ready [1]]
example : lookup (run (init fbCfg) fbOps).affinity "k" = some 0 ∧ isReadySc (run (init fbCfg) fbOps) 0 = false ∧
    (run (init fbCfg) fbOps).picker = .gcp [1] := by decide +kernel
example : (step (run (init fbCfg) fbOps) (.pick 9 0 "bound" .gcp none (.msg ⟨"k", []⟩))).2 = [.placed 1] := by
  decide +kernel
example : lookup (run (init fbCfg) (fbOps ++ [.pick 9 2 "bound" .gcp none (.msg ⟨"k", []⟩)])).fallback "k" = some 1 := by
  decide +kernel

end GcpVerif.Pool
