/-
C07 — the unresponsive-connection detector, for every state and every operation: what
`lastResp` / `deCalls` / `refreshCnt` / `refreshing` of a slot mean over the history.

The detector record of a slot is changed by exactly two kinds of events and by nothing else:
* the completion of a call *that was placed on this slot* (`detector_done`: a response resets it, a
  stale or counted deadline-exceeded completion is ignored / counted, a refresh is started only by
  the rule), and
* the swap that concludes a refresh *of this slot* (`detector_swap`: epoch = now, no counted calls,
  one more refresh, not refreshing).
Every other operation — resolver updates, state reports for any connection, picks on any picker
(also stopped and resumed ones), completions of calls on other slots, swaps of other slots, pool
growth, clock advances, the wake-ups of waiting picks — leaves it alone (`detector_quiet`,
`detector_done_other`, `detector_scs_other`).  This is the step-wise form of the history-level
monitor `detector_refines`.
-/
import GcpVerif.Proofs.PoolStages
import GcpVerif.Proofs.PoolLocal
import GcpVerif.Proofs.PoolReady
namespace GcpVerif.Pool

structure Det where
  lastResp : Int
  deCalls : Nat
  refreshCnt : Nat
  refreshing : Bool
  deriving DecidableEq, Repr

def detOf (r : RefSt) : Det := ⟨r.lastResp, r.deCalls, r.refreshCnt, r.refreshing⟩

def detAt (s : St) (i : Slot) : Option Det := (s.refs[i]?).map detOf

/-- every existing slot keeps its detector record -/
def DetSame (s s' : St) : Prop := ∀ i d, detAt s i = some d → detAt s' i = some d

theorem DetSame.refl (s : St) : DetSame s s := fun _ _ h => h
theorem DetSame.trans {a b c : St} (h1 : DetSame a b) (h2 : DetSame b c) : DetSame a c :=
  fun i d h => h2 i d (h1 i d h)

theorem detSame_of_refs {s s' : St} (h : s'.refs = s.refs) : DetSame s s' := by
  intro i d hd; unfold detAt at *; rw [h]; exact hd

theorem detAt_modRef (s : St) (j : Slot) (f : RefSt → RefSt) (i : Slot) :
    detAt (modRef s j f) i = if j = i then (s.refs[i]?).map (fun r => detOf (f r)) else detAt s i := by
  simp only [detAt, modRef, List.getElem?_modify]
  by_cases h : j = i
  · subst h; cases s.refs[j]? <;> simp
  · cases s.refs[i]? <;> simp [h]

theorem detSame_modRef (s : St) (j : Slot) (f : RefSt → RefSt) (hf : ∀ r, detOf (f r) = detOf r) :
    DetSame s (modRef s j f) := by
  intro i d hd
  rw [detAt_modRef]
  split
  · unfold detAt at hd
    cases hr : s.refs[i]? with
    | none => rw [hr] at hd; cases hd
    | some r => rw [hr] at hd; simp only [Option.map_some, Option.some.injEq] at hd ⊢; rw [hf]; exact hd
  · exact hd

theorem ccNew_refs (s : St) : (ccNewSubConn s).1.refs = s.refs := by
  unfold ccNewSubConn; split
  · rfl
  · split <;> rfl

theorem detSame_addSubConn (s : St) : DetSame s (addSubConn s).1 := by
  unfold addSubConn
  have h := ccNew_refs s
  generalize ccNewSubConn s = r at h ⊢
  obtain ⟨s1, o, ev⟩ := r
  simp only at h
  cases o with
  | none => exact detSame_of_refs h
  | some sc =>
    intro i d hd
    simp only [detAt] at hd ⊢
    rw [← h] at hd
    have hlt : i < s1.refs.length := by
      cases hr : s1.refs[i]? with
      | none => rw [hr] at hd; cases hd
      | some r => exact (List.getElem?_eq_some_iff.mp hr).1
    rw [List.getElem?_append_left hlt]; exact hd

theorem updateAll_refs (s : St) (scs : List Sc) : (updateAll s scs).1.refs = s.refs := by
  unfold updateAll
  suffices h : ∀ (acc : St × List Event), acc.1.refs = s.refs →
      (scs.foldl (fun (acc : St × List Event) sc =>
        ({ acc.1 with scAddrs := insert acc.1.scAddrs sc acc.1.addrs }, acc.2 ++ [.upd sc acc.1.addrs, .connect sc])) acc).1.refs = s.refs from
    h (s, []) rfl
  induction scs with
  | nil => intro acc h; exact h
  | cons x xs ih => intro acc h; simp only [List.foldl_cons]; exact ih _ h

theorem detLeavesA : LeavesA DetSame where
  refl := DetSame.refl
  trans := DetSame.trans
  setAddrs _ _ := detSame_of_refs rfl
  setCfg _ _ := detSame_of_refs rfl
  setFail _ _ := detSame_of_refs rfl
  setNow _ _ := detSame_of_refs rfl
  setRr _ := detSame_of_refs rfl
  setHeld _ _ := detSame_of_refs rfl
  addWaiter _ _ := detSame_of_refs rfl
  dropWaiter _ _ := detSame_of_refs rfl
  addSubConn s := detSame_addSubConn s
  updateAll s scs := detSame_of_refs (updateAll_refs s scs)
  place s call slot cmd loc key ctx dl := by
    unfold place
    cases getRef s slot with
    | none => exact DetSame.refl s
    | some r =>
      simp only
      exact (detSame_modRef s slot (fun r => { r with streamsCnt := r.streamsCnt + 1 }) (fun _ => rfl)).trans (detSame_of_refs rfl)
  getReady s c key := by
    apply detSame_of_refs
    unfold getReadySubConnRef
    repeat' split
    all_goals rfl

/-- **C07** nothing but a completion or a state report touches any slot's detector record -/
theorem detector_quiet (s : St) (op : Op) (hq : quietOp op) : DetSame s (step s op).1 :=
  lift_quiet detLeavesA s op hq

theorem detSame_wake (s : St) : DetSame s (wakeWaiters s).1 := lift_wake detLeavesA s

/-! ### completions -/

theorem detSame_bump (s : St) (sc : Sc) (d : Int) : DetSame s (bumpAffinity s sc d) := by
  unfold bumpAffinity; split
  · exact detSame_modRef s _ _ (fun _ => rfl)
  · exact DetSame.refl s

theorem detSame_bind (s : St) (k : String) (sc : Sc) : DetSame s (bindSubConn s k sc) := by
  unfold bindSubConn
  refine DetSame.trans ?_ (detSame_bump _ sc 1)
  unfold addBinding; split
  · exact DetSame.refl s
  · exact detSame_of_refs rfl

theorem detSame_foldl_bind (keys : List String) (sc : Sc) (s : St) :
    DetSame s (keys.foldl (fun s k => bindSubConn s k sc) s) := by
  induction keys generalizing s with
  | nil => exact DetSame.refl s
  | cons k ks ih => exact (detSame_bind s k sc).trans (ih _)

theorem detSame_applyBindings (s : St) (call : Call) (reply : Msg) : DetSame s (applyBindings s call reply) := by
  unfold applyBindings
  cases call.cmd with
  | bound => exact DetSame.refl s
  | unbind =>
    simp only
    unfold unbindSubConn
    cases lookup s.affinity call.boundKey with
    | none => exact DetSame.refl s
    | some sc => exact (detSame_bump s sc (-1)).trans (detSame_of_refs rfl)
  | bind =>
    simp only
    split
    · exact DetSame.refl s
    · split
      · exact DetSame.refl s
      · split
        · exact DetSame.refl s
        · exact detSame_foldl_bind _ _ s

theorem modify_twice (l : List RefSt) (i : Nat) (f g : RefSt → RefSt) :
    (l.modify i f).modify i g = l.modify i (fun r => g (f r)) := by
  apply List.ext_getElem?
  intro k
  simp only [List.getElem?_modify]
  by_cases h : i = k
  · subst h; cases l[i]? <;> simp
  · cases l[k]? <;> simp [h]

/-- `refresh(slot)`: only the `refreshing` flag of that slot may change, and only from false to true -/
theorem refresh_det (s : St) (slot : Slot) : ∀ i d, detAt s i = some d →
    ∃ d', detAt (refresh s slot).1 i = some d' ∧ d'.lastResp = d.lastResp ∧ d'.deCalls = d.deCalls ∧
      d'.refreshCnt = d.refreshCnt ∧ (i ≠ slot → d' = d) ∧
      (d'.refreshing = d.refreshing ∨ (d.refreshing = false ∧ d'.refreshing = true)) := by
  intro i d hd
  have hsame : ∃ d', detAt s i = some d' ∧ d'.lastResp = d.lastResp ∧ d'.deCalls = d.deCalls ∧
      d'.refreshCnt = d.refreshCnt ∧ (i ≠ slot → d' = d) ∧
      (d'.refreshing = d.refreshing ∨ (d.refreshing = false ∧ d'.refreshing = true)) :=
    ⟨d, hd, rfl, rfl, rfl, fun _ => rfl, Or.inl rfl⟩
  unfold refresh
  cases hg : getRef s slot with
  | none => exact hsame
  | some r =>
    simp only
    split
    · exact hsame
    · rename_i hnr
      have hrf : r.refreshing = false := by simpa using hnr
      -- the flag of `slot` set to b, everything else as in s
      have hflag : ∀ (b : Bool) (s1 : St), s1.refs = (modRef s slot fun r => { r with refreshing := b }).refs →
          ∃ d', detAt s1 i = some d' ∧ d'.lastResp = d.lastResp ∧ d'.deCalls = d.deCalls ∧
            d'.refreshCnt = d.refreshCnt ∧ (i ≠ slot → d' = d) ∧
            (d'.refreshing = d.refreshing ∨ (d.refreshing = false ∧ d'.refreshing = true)) := by
        intro b s1 hs1
        have : detAt s1 i = detAt (modRef s slot fun r => { r with refreshing := b }) i := by
          unfold detAt; rw [hs1]
        rw [this, detAt_modRef]
        by_cases hsi : slot = i
        · subst hsi
          simp only [↓reduceIte]
          unfold detAt at hd
          unfold getRef at hg
          rw [hg] at hd ⊢
          simp only [Option.map_some, Option.some.injEq] at hd ⊢
          subst hd
          refine ⟨_, rfl, rfl, rfl, rfl, fun h => absurd rfl h, ?_⟩
          cases b
          · left; simp [detOf, hrf]
          · right; simp [detOf, hrf]
        · simp only [hsi, ↓reduceIte]
          exact ⟨d, hd, rfl, rfl, rfl, fun _ => rfl, Or.inl rfl⟩
      have hc := ccNew_refs (modRef s slot fun r => { r with refreshing := true })
      generalize ccNewSubConn (modRef s slot fun r => { r with refreshing := true }) = rr at hc ⊢
      obtain ⟨s1, o, ev⟩ := rr
      simp only at hc
      cases o with
      | none =>
        simp only
        apply hflag false
        simp only [modRef, hc]
        exact modify_twice s.refs slot _ _
      | some sc =>
        simp only
        exact hflag true _ hc

/-- what the completion of a call does to the detector record of the slot it was placed on -/
def detNext (c : Cfg) (now : Int) (call : Call) (isResp : Bool) (d : Det) : Det :=
  if !c.detection then d
  else if isResp then { d with lastResp := now, deCalls := 0, refreshCnt := 0 }
  else if call.started < d.lastResp then d
  else { d with deCalls := satInc d.deCalls }

/-- the rule of C07: this completion starts a refresh -/
def mustRefreshM (c : Cfg) (now : Int) (call : Call) (isResp : Bool) (d : Det) : Prop :=
  c.detection = true ∧ isResp = false ∧ ¬ call.started < d.lastResp ∧ satInc d.deCalls ≥ c.uc ∧
  d.lastResp < now - windowNs c d.refreshCnt ∧ d.refreshing = false

theorem detect_det (s : St) (c : Cfg) (call : Call) (err : ErrKind) : ∀ i d, detAt s i = some d →
    ∃ d', detAt (detectUnresponsive s c call err).1 i = some d' ∧ (i ≠ call.slot → d' = d) ∧
      (i = call.slot →
        d'.lastResp = (detNext c s.now call (isResponse s err call.dl) d).lastResp ∧
        d'.deCalls = (detNext c s.now call (isResponse s err call.dl) d).deCalls ∧
        d'.refreshCnt = (detNext c s.now call (isResponse s err call.dl) d).refreshCnt ∧
        (d'.refreshing = d.refreshing ∨
          (mustRefreshM c s.now call (isResponse s err call.dl) d ∧ d'.refreshing = true))) := by
  intro i d hd
  unfold detectUnresponsive
  by_cases hdet : c.detection = true
  · simp only [hdet, Bool.not_true, Bool.false_eq_true, ↓reduceIte]
    by_cases hresp : isResponse s err call.dl = true
    · simp only [hresp, ↓reduceIte]
      rw [detAt_modRef]
      by_cases hsi : call.slot = i
      · subst hsi
        simp only [↓reduceIte]
        unfold detAt at hd
        cases hr : s.refs[call.slot]? with
        | none => rw [hr] at hd; cases hd
        | some r =>
          rw [hr] at hd
          simp only [Option.map_some, Option.some.injEq] at hd ⊢
          subst hd
          refine ⟨_, rfl, fun h => absurd rfl h, fun _ => ?_⟩
          simp [detNext, hdet, detOf]
      · simp only [hsi, ↓reduceIte]
        exact ⟨d, hd, fun _ => rfl, fun h => absurd h.symm hsi⟩
    · have hresp' : isResponse s err call.dl = false := by simpa using hresp
      simp only [hresp', Bool.false_eq_true, ↓reduceIte]
      cases hg : getRef s call.slot with
      | none =>
        refine ⟨d, hd, fun _ => rfl, fun h => ?_⟩
        subst h
        unfold detAt at hd; unfold getRef at hg; rw [hg] at hd; cases hd
      | some r =>
        simp only
        by_cases hstale : call.started < r.lastResp
        · simp only [hstale, ↓reduceIte]
          refine ⟨d, hd, fun _ => rfl, fun h => ?_⟩
          subst h
          have hdr : d = detOf r := by
            unfold detAt at hd; unfold getRef at hg; rw [hg] at hd; exact (Option.some.inj hd).symm
          have : call.started < d.lastResp := by rw [hdr]; exact hstale
          simp [detNext, hdet, hresp', this]
        · simp only [hstale, ↓reduceIte]
          -- counted: deCalls + 1, then possibly refresh
          have hinc : ∀ i d, detAt s i = some d →
              detAt (modRef s call.slot fun r => { r with deCalls := satInc r.deCalls }) i =
                some (if call.slot = i then { d with deCalls := satInc d.deCalls } else d) := by
            intro i d hd
            rw [detAt_modRef]
            by_cases hsi : call.slot = i
            · subst hsi
              simp only [↓reduceIte]
              unfold detAt at hd
              cases hr : s.refs[call.slot]? with
              | none => rw [hr] at hd; cases hd
              | some r0 => rw [hr] at hd; simp only [Option.map_some, Option.some.injEq] at hd ⊢; subst hd; rfl
            · simp only [hsi, ↓reduceIte]; exact hd
          have hdr : i = call.slot → d = detOf r := by
            intro h; subst h
            unfold detAt at hd; unfold getRef at hg; rw [hg] at hd; exact (Option.some.inj hd).symm
          split
          · rename_i htrig
            obtain ⟨d', h1, h2, h3, h4, h5, h6⟩ := refresh_det (modRef s call.slot fun r => { r with deCalls := satInc r.deCalls }) call.slot i _ (hinc i d hd)
            refine ⟨d', h1, ?_, ?_⟩
            · intro hne
              have := h5 hne
              rw [this]; simp [fun h => hne (Eq.symm h)]
              intro h; exact absurd h.symm hne
            · intro hi
              have hd0 := hdr hi
              have hns : ¬ call.started < d.lastResp := by rw [hd0]; exact hstale
              have hci : call.slot = i := hi.symm
              simp only [hci, ↓reduceIte] at h2 h3 h4 h6
              refine ⟨?_, ?_, ?_, ?_⟩
              · rw [h2]; simp [detNext, hdet, hresp', hns]
              · rw [h3]; simp [detNext, hdet, hresp', hns]
              · rw [h4]; simp [detNext, hdet, hresp', hns]
              · rcases h6 with h6 | h6
                · exact Or.inl h6
                · right
                  refine ⟨⟨hdet, rfl, hns, ?_, ?_, h6.1⟩, h6.2⟩
                  · simp only [Bool.and_eq_true, decide_eq_true_eq] at htrig
                    rw [hd0]; exact htrig.1
                  · simp only [Bool.and_eq_true, decide_eq_true_eq] at htrig
                    rw [hd0]; exact htrig.2
          · refine ⟨_, hinc i d hd, ?_, ?_⟩
            · intro hne
              have : ¬ call.slot = i := fun h => hne h.symm
              simp [this]
            · intro hi
              have hd0 := hdr hi
              have hns : ¬ call.started < d.lastResp := by rw [hd0]; exact hstale
              have hci : call.slot = i := hi.symm
              simp only [hci, ↓reduceIte]
              refine ⟨?_, ?_, ?_, ?_⟩
              · simp [detNext, hdet, hns]
              · simp [detNext, hdet, hns]
              · simp [detNext, hdet, hns]
              · first | exact Or.inl rfl | exact Or.inl trivial
  · have hdet' : c.detection = false := by simpa using hdet
    simp only [hdet', Bool.not_false, ↓reduceIte]
    refine ⟨d, hd, fun _ => rfl, fun _ => ?_⟩
    simp [detNext, hdet']

/-- **C07** the completion of a call changes the detector record of the slot the call was placed on,
    exactly by the rule, and of no other slot: any completion that counts as a response resets the
    record (epoch = now, no counted calls, no refreshes since); a client-side deadline-exceeded completion
    of a call started before the last response is ignored; otherwise it is counted, and a refresh is
    started only if by then `unresponsive_calls` such calls have ended, more than
    `unresponsive_detection_ms × 2^k` has passed since the last response and no refresh is in progress -/
theorem detector_done (s : St) (callId : Nat) (err : ErrKind) (reply : Msg) (call : Call) (c : Cfg)
    (hf : s.calls.find? (fun x => x.id == callId) = some call) (hc : s.cfg = some c) :
    ∀ i d, detAt s i = some d →
    ∃ d', detAt (step s (.done callId err reply)).1 i = some d' ∧ (i ≠ call.slot → d' = d) ∧
      (i = call.slot →
        d'.lastResp = (detNext c s.now call (isResponse s err call.dl) d).lastResp ∧
        d'.deCalls = (detNext c s.now call (isResponse s err call.dl) d).deCalls ∧
        d'.refreshCnt = (detNext c s.now call (isResponse s err call.dl) d).refreshCnt ∧
        (d'.refreshing = d.refreshing ∨
          (mustRefreshM c s.now call (isResponse s err call.dl) d ∧ d'.refreshing = true))) := by
  intro i d hd
  have h1 : DetSame s (completeCall s call) := by
    unfold completeCall
    exact (detSame_of_refs (s' := { s with calls := s.calls.filter fun c => c.id != call.id }) rfl).trans
      (detSame_modRef _ call.slot _ (fun _ => rfl))
  obtain ⟨d', e1, e2, e3⟩ := detect_det (completeCall s call) c call err i d (h1 i d hd)
  have hnow : (completeCall s call).now = s.now := by unfold completeCall; rfl
  have hresp : isResponse (completeCall s call) err call.dl = isResponse s err call.dl := by
    unfold isResponse; rw [hnow]
  rw [hnow, hresp] at e3
  refine ⟨d', ?_, e2, e3⟩
  unfold step
  simp only [stepCore, opDone, hf, hc]
  generalize detectUnresponsive (completeCall s call) c call err = r at e1
  obtain ⟨s2, ev⟩ := r
  simp only at e1 ⊢
  split
  · exact detSame_wake s2 i d' e1
  · exact detSame_wake _ i d' (detSame_applyBindings s2 call reply i d' e1)

/-- a completion that finds no such call in flight changes nothing -/
theorem detector_done_unknown (s : St) (callId : Nat) (err : ErrKind) (reply : Msg)
    (hf : s.calls.find? (fun x => x.id == callId) = none) : DetSame s (step s (.done callId err reply)).1 := by
  unfold step
  simp only [stepCore, opDone, hf]
  exact detSame_wake s

/-- **C07** a state report changes a detector record only by completing a refresh: when the replacement
    connection of slot `i` is reported READY the record of `i` becomes (epoch = now, no counted calls, one
    more refresh, not refreshing); every other report — for pool connections, for replacements that are
    not READY yet, for replacements of other slots, for unknown connections — leaves every record alone -/
theorem detector_scs (s : St) (sc : Sc) (st : CState) (order : List Slot) :
    ∀ i d, detAt s i = some d →
    ∃ d', detAt (step s (.scs sc st order)).1 i = some d' ∧
      ((lookup s.refreshingMap sc = some i ∧ st = .ready) → d' = ⟨s.now, 0, d.refreshCnt + 1, false⟩) ∧
      (¬ (lookup s.refreshingMap sc = some i ∧ st = .ready) → d' = d) := by
  intro i d hd
  -- the report proper never touches the slot list
  have hrep : ∀ (s1 : St) (oldS : CState), (report s1 sc oldS st order).1.refs = s1.refs :=
    fun s1 oldS => (report_frame s1 sc oldS st order).2.1
  have htail : ∀ (s1 : St) (ev0 : List Event) (d1 : Det), detAt s1 i = some d1 →
      detAt (wakeWaiters (match stateOf s1 sc with
        | none => (s1, ev0 ++ [Event.res "ok"])
        | some oldS =>
          let (s, ev1) := recordState s1 sc st
          let s := cleanFallback s sc oldS st
          let oldAggr := s.aggr
          let s := recordTransition s oldS st
          let (s, ev2) := maybePublish s oldS st oldAggr order
          (s, ev0 ++ ev1 ++ ev2 ++ [Event.res "ok"])).1).1 i = some d1 := by
    intro s1 ev0 d1 h1
    cases hso : stateOf s1 sc with
    | none => exact detSame_wake s1 i d1 h1
    | some oldS =>
      simp only
      rw [opScs_eq_report s1 sc oldS st order ev0]
      apply detSame_wake
      unfold detAt; rw [hrep]; exact h1
  unfold step
  simp only [stepCore, opScs, scsPrologue]
  cases hl : lookup s.refreshingMap sc with
  | none =>
    simp only
    exact ⟨d, htail s [] d hd, ⟨(fun h => by cases h.1), fun _ => rfl⟩⟩
  | some slot =>
    simp only
    by_cases hst : st = .ready
    · subst hst
      simp only [bne_self_eq_false, Bool.false_eq_true, ↓reduceIte]
      cases hg : getRef s slot with
      | none =>
        have hsw : swap s sc slot = (s, []) := by unfold swap; rw [hg]
        rw [hsw]
        refine ⟨d, htail s [] d hd, ?_, fun _ => rfl⟩
        intro h
        have : slot = i := Option.some.inj h.1
        subst this
        unfold detAt at hd; unfold getRef at hg; rw [hg] at hd; cases hd
      | some r =>
        have hf2 := (swap_fields (sc := sc) hg).2.1
        generalize hsw : swap s sc slot = sw at hf2
        obtain ⟨s1, ev0⟩ := sw
        simp only at hf2 ⊢
        by_cases hsi : slot = i
        · subst hsi
          have hd0 : d = detOf r := by
            unfold detAt at hd; unfold getRef at hg; rw [hg] at hd; exact (Option.some.inj hd).symm
          have h1 : detAt s1 slot = some ⟨s.now, 0, d.refreshCnt + 1, false⟩ := by
            unfold detAt; rw [hf2, List.getElem?_modify]
            unfold getRef at hg
            simp [hg, swapRef, detOf, hd0]
          exact ⟨_, htail s1 ev0 _ h1, ⟨fun _ => rfl, fun h => absurd (by simp) h⟩⟩
        · have h1 : detAt s1 i = some d := by
            unfold detAt; rw [hf2, List.getElem?_modify]
            unfold detAt at hd
            simp only [hsi, ↓reduceIte]
            cases hr : s.refs[i]? with
            | none => rw [hr] at hd; cases hd
            | some r0 => rw [hr] at hd; simpa using hd
          refine ⟨d, htail s1 ev0 d h1, ?_, fun _ => rfl⟩
          intro h; exact absurd (Option.some.inj h.1) hsi
    · have hne : (st != CState.ready) = true := by simpa using hst
      simp only [hne, ↓reduceIte]
      refine ⟨d, detSame_wake s i d hd, fun h => absurd h.2 hst, fun _ => rfl⟩

end GcpVerif.Pool
