/-
C01 end to end, for every history (under gRPC's contract `RunOk`):

* `bound_stays` — once a key is bound to a slot, it stays bound to that slot through any sequence of
  operations that contains no *successful completion of an UNBIND call for that key*: not moved by
  BIND completions for the same key or other keys, UNBINDs of other keys, failed completions, load,
  picks on current or stale pickers, stopped picks, growth, resolver updates, state reports, or
  refreshes of the slot (which swap the connection object under the key);
* `bound_pick_home` — a BOUND call for such a key, on any published (current or superseded) picker,
  is placed on exactly that slot's connection whenever that connection is READY;
* `bound_call_travels_home` — the two together.
-/
import GcpVerif.Proofs.PoolKeys
namespace GcpVerif.Pool

variable {ci : CfgInput}

/-- the operation is the successful completion of an UNBIND call for `key` -/
def unbindsKey (s : St) (key : String) : Op → Prop
  | .done callId .nil _ => ∃ call ∈ s.calls, call.id = callId ∧ call.cmd = .unbind ∧ call.boundKey = key
  | _ => False

theorem lookup_append_of_some {l m : List (String × Sc)} {k : String} {v : Sc} (h : lookup l k = some v) :
    lookup (l ++ m) k = some v := by
  induction l with
  | nil => simp [lookup] at h
  | cons p l ih =>
    simp only [List.cons_append, lookup_cons] at h ⊢
    split
    · rename_i hp; simp only [hp, ↓reduceIte] at h; exact h
    · rename_i hp; simp only [hp] at h; exact ih h

/-- a BIND completion never moves a key that is already bound -/
theorem bind_keeps_bound (s : St) (k : String) (sc : Sc) {key : String} {v : Sc}
    (hb : lookup s.affinity key = some v) :
    lookup (bindSubConn s k sc).affinity key = some v ∧ (bindSubConn s k sc).scRefs = s.scRefs := by
  unfold bindSubConn
  refine ⟨?_, ?_⟩
  · rw [bumpAffinity_affinity]
    unfold addBinding
    split
    · exact hb
    · exact lookup_append_of_some hb
  · have : (bumpAffinity (addBinding s k sc) sc 1).scRefs = (addBinding s k sc).scRefs := by
      unfold bumpAffinity; split <;> rfl
    rw [this]; unfold addBinding; split <;> rfl

theorem foldl_bind_keeps_bound (ks : List String) (sc : Sc) : ∀ (s : St) {key : String} {v : Sc},
    lookup s.affinity key = some v →
    lookup (ks.foldl (fun s k => bindSubConn s k sc) s).affinity key = some v ∧
    (ks.foldl (fun s k => bindSubConn s k sc) s).scRefs = s.scRefs := by
  induction ks with
  | nil => intro s key v h; exact ⟨h, rfl⟩
  | cons k ks ih =>
    intro s key v h
    obtain ⟨h1, h2⟩ := bind_keeps_bound s k sc h
    obtain ⟨h3, h4⟩ := ih (bindSubConn s k sc) h1
    exact ⟨h3, h4.trans h2⟩

theorem unbind_scRefs (s : St) (k : String) : (unbindSubConn s k).scRefs = s.scRefs := by
  unfold unbindSubConn
  cases lookup s.affinity k with
  | none => rfl
  | some sc =>
    simp only [dropBinding]
    unfold bumpAffinity; split <;> rfl

/-- the completion of a call keeps a bound key on its slot unless it is a successful UNBIND of that key -/
theorem applyBindings_keeps (s : St) (call : Call) (reply : Msg) {key : String} {v : Sc}
    (hb : lookup s.affinity key = some v) (hno : ¬ (call.cmd = .unbind ∧ call.boundKey = key)) :
    lookup (applyBindings s call reply).affinity key = some v ∧ (applyBindings s call reply).scRefs = s.scRefs := by
  unfold applyBindings
  cases hc : call.cmd with
  | bound => exact ⟨hb, rfl⟩
  | unbind =>
    simp only
    have hne : call.boundKey ≠ key := fun he => hno ⟨hc, he⟩
    exact ⟨by rw [unbind_other s hne]; exact hb, unbind_scRefs s _⟩
  | bind =>
    simp only
    split
    · exact ⟨hb, rfl⟩
    · split
      · exact ⟨hb, rfl⟩
      · split
        · exact ⟨hb, rfl⟩
        · exact foldl_bind_keeps_bound _ _ s hb

theorem slotOfKey_congr {s s' : St} {key : String} (h1 : lookup s'.affinity key = lookup s.affinity key)
    (h2 : s'.scRefs = s.scRefs) : slotOfKey s' key = slotOfKey s key := by
  unfold slotOfKey; rw [h1, h2]

theorem stable_opDone_key {s : St} (h : Keyed s) (callId : Nat) (err : ErrKind) (reply : Msg) {key : String} {v : Sc}
    (hb : lookup s.affinity key = some v)
    (hno : ¬ unbindsKey s key (.done callId err reply)) :
    slotOfKey (opDone s callId err reply).1 key = slotOfKey s key := by
  unfold opDone
  cases hf : s.calls.find? (fun c => c.id == callId) with
  | none => rfl
  | some call =>
    simp only
    have hmem : call ∈ s.calls := List.mem_of_find?_eq_some hf
    have hid : call.id = callId := by simpa using List.find?_some hf
    cases s.cfg with
    | none => rfl
    | some c =>
      simp only
      have h1 : Ext2 s (completeCall s call) := by unfold completeCall; exact ext2_of_same rfl rfl
      have h2 := ext2_detect (completeCall s call) c call err
      generalize detectUnresponsive (completeCall s call) c call err = r at h2 ⊢
      obtain ⟨s2, ev⟩ := r
      simp only at h2 ⊢
      have h12 := h1.trans h2
      split
      · exact stable_of_ext2 h h12 key
      · rename_i hnil
        have herr : err = .nil := by simpa using hnil
        subst herr
        have hb2 : lookup s2.affinity key = some v := by rw [h12.1]; exact hb
        have hno' : ¬ (call.cmd = .unbind ∧ call.boundKey = key) := fun hh => hno ⟨call, hmem, hid, hh.1, hh.2⟩
        obtain ⟨a1, a2⟩ := applyBindings_keeps s2 call reply hb2 hno'
        rw [slotOfKey_congr (a1.trans hb2.symm) a2]
        exact stable_of_ext2 h h12 key

/-- one step keeps a bound key on its slot unless it is the successful completion of an UNBIND for it -/
theorem stable_step_key {s : St} (h : Keyed s) (h1 : Pool1 ci s) (op : Op) (hct : contractOk s op)
    {key : String} {v : Sc} (hb : lookup s.affinity key = some v) (hno : ¬ unbindsKey s key op) :
    slotOfKey (step s op).1 key = slotOfKey s key := by
  cases op with
  | done callId err reply =>
    have hk : Keyed (opDone s callId err reply).1 := keyed_of_kstep h (kstep_opDone h1 callId err reply)
    have hc := stable_opDone_key h callId err reply hb hno
    unfold step
    simp only [stepCore]
    generalize opDone s callId err reply = r at hk hc ⊢
    obtain ⟨s1, ev⟩ := r
    have h2 := stable_of_ext2 hk (ext2_wake s1) key
    simp only at h2 hc ⊢
    generalize wakeWaiters s1 = r2 at h2 ⊢
    obtain ⟨s2, ev2⟩ := r2
    exact h2.trans hc
  | ccs ver => exact stable_step h h1 _ hct (by simp [rebinds]) key
  | reserr => exact stable_step h h1 _ hct (by simp [rebinds]) key
  | scs sc st order => exact stable_step h h1 _ hct (by simp [rebinds]) key
  | factory n => exact stable_step h h1 _ hct (by simp [rebinds]) key
  | adv ns => exact stable_step h h1 _ hct (by simp [rebinds]) key
  | pick call pn m ctx dl req => exact stable_step h h1 _ hct (by simp [rebinds]) key
  | ctxdone call => exact stable_step h h1 _ hct (by simp [rebinds]) key
  | pickHold call pn m ctx dl req => exact stable_step h h1 _ hct (by simp [rebinds]) key
  | resume call => exact stable_step h h1 _ hct (by simp [rebinds]) key

theorem slotOfKey_some {s : St} {key : String} {slot : Slot} (h : slotOfKey s key = some slot) :
    ∃ v, lookup s.affinity key = some v := by
  unfold slotOfKey at h
  cases hl : lookup s.affinity key with
  | none => rw [hl] at h; cases h
  | some v => exact ⟨v, rfl⟩

/-- no operation of `ops`, applied in the state it meets, is a successful UNBIND completion for `key` -/
def NoUnbind (key : String) : St → List Op → Prop
  | _, [] => True
  | s, op :: ops => ¬ unbindsKey s key op ∧ NoUnbind key (step s op).1 ops

theorem bound_stays_foldl (key : String) (slot : Slot) (ops : List Op) : ∀ s, Keyed s → Pool1 ci s → RunOk s ops →
    NoUnbind key s ops → slotOfKey s key = some slot →
    slotOfKey (ops.foldl (fun s op => (step s op).1) s) key = some slot := by
  induction ops with
  | nil => intro s _ _ _ _ hb; exact hb
  | cons op ops ih =>
    intro s hk h1 hr hn hb
    obtain ⟨v, hv⟩ := slotOfKey_some hb
    have hs := stable_step_key hk h1 op hr.1 hv hn.1
    exact ih _ (keyed_step hk h1 op hr.1) (pool1_step h1 op hr.1) hr.2 hn.2 (hs.trans hb)

theorem runOk_append {s : St} {a b : List Op} (h : RunOk s (a ++ b)) :
    RunOk s a ∧ RunOk (a.foldl (fun s op => (step s op).1) s) b := by
  induction a generalizing s with
  | nil => exact ⟨trivial, h⟩
  | cons op a ih =>
    obtain ⟨h1, h2⟩ := h
    obtain ⟨h3, h4⟩ := ih h2
    exact ⟨⟨h1, h3⟩, h4⟩

/-- **C01** once `key` is bound to `slot` (after any history `ops1`), it is bound to `slot` after every
    continuation `ops2` in which no UNBIND call for `key` completes successfully -/
theorem bound_stays (ci : CfgInput) (ops1 ops2 : List Op) (hok : RunOk (init ci) (ops1 ++ ops2))
    (key : String) (slot : Slot) (hb : slotOfKey (run (init ci) ops1) key = some slot)
    (hno : NoUnbind key (run (init ci) ops1) ops2) :
    slotOfKey (run (init ci) (ops1 ++ ops2)) key = some slot := by
  obtain ⟨hok1, hok2⟩ := runOk_append hok
  have : run (init ci) (ops1 ++ ops2) = ops2.foldl (fun s op => (step s op).1) (run (init ci) ops1) := by
    unfold run; rw [List.foldl_append]
  rw [this]
  exact bound_stays_foldl key slot ops2 _ (keyed_run ci ops1 hok1) (pool1_run ci ops1 hok1) hok2 hno hb

/-! ### the pick -/

/-- **C01** a BOUND call (method table entry `bound`, key read from the request) for a key that is
    bound to `slot`, issued on any published picker that lists at least one channel — the current one
    or a superseded one — while the slot's connection is READY: the call is placed on that connection,
    whatever the load on any channel -/
theorem bound_pick_home {s : St} (b : Bij s) {c : Cfg} (hc : s.cfg = some c) (hm : c.methods = true)
    (call pn : Nat) (dl : Option Int) (key : String) (ks : List String) (hk : key ≠ "")
    (hfree : (callIdUsed s call || pickerBusy s pn) = false)
    {st : CState} {l : List Slot} (hp : s.published[pn]? = some (st, .gcp l)) (hl : l ≠ [])
    {slot : Slot} (hb : slotOfKey s key = some slot)
    {r : RefSt} (hg : getRef s slot = some r) (hr : isReadySc s r.subConn = true) :
    (opPick s call pn "bound" .gcp dl (.msg ⟨key, ks⟩)).2 = [.placed r.subConn] := by
  obtain ⟨sc, hsc⟩ := slotOfKey_some hb
  have hslot : lookup s.scRefs sc = some slot := by
    unfold slotOfKey at hb; rw [hsc] at hb; exact hb
  have hsub : subAt s slot = some sc := b.refOf sc slot hslot
  have hrsc : r.subConn = sc := by
    unfold subAt at hsub; unfold getRef at hg; rw [hg] at hsub; exact Option.some.inj hsub
  have hne : l.isEmpty = false := by cases l with | nil => exact absurd rfl hl | cons _ _ => rfl
  have hrc : resolveCall c "bound" .gcp (.msg ⟨key, ks⟩) = (.bound, .key, some key) := by
    simp [resolveCall, methodCfg, hm, extract]
  have hgr : getReadySubConnRef s c key = (s, some slot, true) := by
    rw [bound_ready_home hsc (by rw [← hrsc]; exact hr), hslot]
  have hkb : (key != "") = true := by simpa using hk
  unfold opPick
  simp only [hfree, Bool.false_eq_true, ↓reduceIte, hp, hc, hne, hrc]
  have : (Cmd.bound == Cmd.bind && c.rr) = false := by simp
  simp only [this, Bool.false_eq_true, ↓reduceIte, chooseSlot, hkb, hgr, finishPick, place, hg]
  rfl

/-- **C01 (end to end)** bind, any continuation without a successful UNBIND of the key, then a BOUND
    call for the key on any usable published picker while the home connection is READY: it is placed
    on the connection that now sits in the slot the key was bound to -/
theorem bound_call_travels_home (ci : CfgInput) (ops1 ops2 : List Op) (hok : RunOk (init ci) (ops1 ++ ops2))
    (key : String) (hk : key ≠ "") (slot : Slot) (hb : slotOfKey (run (init ci) ops1) key = some slot)
    (hno : NoUnbind key (run (init ci) ops1) ops2)
    {c : Cfg} (hc : (run (init ci) (ops1 ++ ops2)).cfg = some c) (hm : c.methods = true)
    (call pn : Nat) (dl : Option Int) (ks : List String)
    (hfree : (callIdUsed (run (init ci) (ops1 ++ ops2)) call || pickerBusy (run (init ci) (ops1 ++ ops2)) pn) = false)
    {st : CState} {l : List Slot} (hp : (run (init ci) (ops1 ++ ops2)).published[pn]? = some (st, .gcp l)) (hl : l ≠ [])
    {r : RefSt} (hg : getRef (run (init ci) (ops1 ++ ops2)) slot = some r)
    (hr : isReadySc (run (init ci) (ops1 ++ ops2)) r.subConn = true) :
    (opPick (run (init ci) (ops1 ++ ops2)) call pn "bound" .gcp dl (.msg ⟨key, ks⟩)).2 = [.placed r.subConn] :=
  bound_pick_home (pool1_run ci _ hok).bij hc hm call pn dl key ks hk hfree hp hl
    (bound_stays ci ops1 ops2 hok key slot hb hno) hg hr

/-- the premises are met by a real history: bind "k" on slot 0, refresh the slot (connection 0 is
    replaced by connection 1), then a BOUND call for "k" on the (only, by now superseded-in-content) picker lands on connection 1 -/
example : slotOfKey (run (init c1cfg) (c1ops.take 4)) "k" = some 0 := by decide +kernel
example : (step (run (init c1cfg) c1ops) (.pick 9 0 "bound" .gcp none (.msg ⟨"k", []⟩))).2 = [.placed 1] := by
  decide +kernel

end GcpVerif.Pool
