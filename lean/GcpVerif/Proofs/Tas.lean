/-
At most one winner of an atomic test-and-set, for any number of threads and any schedule; the
per-run obligations that the two places the models rely on have that shape in the current sources.
-/
import GcpVerif.Model.Tas
import GcpVerif.Generated.Consts
namespace GcpVerif.Tas

theorem count_set (l : List Pc) (i : Nat) (x : Pc) (h : l[i]? = some .start) :
    ((l.set i x).filter (· == .won)).length = (l.filter (· == .won)).length + (if x = .won then 1 else 0) := by
  induction l generalizing i with
  | nil => simp at h
  | cons a as ih =>
    cases i with
    | zero =>
      simp only [List.getElem?_cons_zero, Option.some.injEq] at h
      subst h
      simp only [List.set_cons_zero, List.filter_cons]
      by_cases hx : x = .won
      · simp [hx]
      · have : (x == Pc.won) = false := by simpa using hx
        simp [this, hx]
    | succ j =>
      simp only [List.getElem?_cons_succ] at h
      simp only [List.set_cons_succ, List.filter_cons]
      split
      · simp only [List.length_cons]; rw [ih j h]; omega
      · exact ih j h

def Inv (s : St) : Prop := winners s = if s.flag then 1 else 0

theorem inv_step {s : St} (h : Inv s) (i : Nat) : Inv (stepAtomic s i) := by
  unfold stepAtomic
  cases hp : s.pcs[i]? with
  | none => exact h
  | some pc =>
    cases pc with
    | start =>
      simp only
      unfold Inv winners at h ⊢
      by_cases hf : s.flag = true
      · simp only [hf, ↓reduceIte] at h ⊢
        rw [count_set _ _ _ hp, h]; simp
      · have hf' : s.flag = false := by simpa using hf
        simp only [hf', Bool.false_eq_true, ↓reduceIte] at h ⊢
        rw [count_set _ _ _ hp, h]; simp
    | tested => exact h
    | won => exact h
    | lost => exact h

/-- **C07 / C12** any number of threads, any schedule: an atomic test-and-set has at most one winner -/
theorem one_winner (n : Nat) (sched : List Nat) : winners (sched.foldl stepAtomic (init n)) ≤ 1 := by
  have h0 : Inv (init n) := by
    unfold Inv winners init
    simp only [Bool.false_eq_true, ↓reduceIte]
    rw [List.length_eq_zero_iff, List.filter_eq_nil_iff]
    intro a ha
    rw [List.mem_replicate] at ha
    simp [ha.2]
  have : ∀ s, Inv s → Inv (sched.foldl stepAtomic s) := by
    induction sched with
    | nil => intro s h; exact h
    | cons i is ih => intro s h; exact ih _ (inv_step h i)
  have hi := this _ h0
  unfold Inv at hi
  rw [hi]; split <;> omega

/-- with the test outside the region two threads win (kernel-checked witness) -/
theorem split_two_winners : winners ([0, 1, 0, 1].foldl stepSplit (init 2)) = 2 := by decide

/-- **C12 (per run)** `initStream` tests `cs.ClientStream` and assigns it while the stream's mutex,
    held by its callers, stays held (no Unlock in between) -/
theorem init_stream_test_and_set_atomic : GcpVerif.Generated.initStreamTestAndSetAtomic = true := by decide

/-- **C07 (per run)** `refresh` tests `ref.refreshing` and sets it inside one `ref.mu` region -/
theorem refresh_test_and_set_atomic : GcpVerif.Generated.refreshTestAndSetAtomic = true := by decide

end GcpVerif.Tas
