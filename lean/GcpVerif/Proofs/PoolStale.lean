/-
C07 — why re-validating the detector's decision by the last-response time alone is enough.

A completion decides to refresh without holding the balancer lock and acts on the decision later
(`refreshSince`), after any number of other operations.  `decision_still_due`: along every operation
sequence, as long as the slot's last-response time is the one the decision was based on, the counter of
deadline-exceeded calls has not gone down, the number of refreshes since the last response is the same
and the clock has not gone back — the rule the decision was made by still holds in the current state;
and whenever a response or a completed refresh intervened, the last-response time differs
(`det_step`: it becomes the then current time, which lies after the decision's).  So the test
`lastResp = since ∧ ¬ refreshing` refreshes exactly when the rule, evaluated now, says so.
-/
import GcpVerif.Proofs.PoolDetector
namespace GcpVerif.Pool

/-- the clock does not go back and a configuration, once there, stays -/
def Fwd (s s' : St) : Prop := s.now ≤ s'.now ∧ ∀ c, s.cfg = some c → s'.cfg = some c

theorem Fwd.refl (s : St) : Fwd s s := ⟨Int.le_refl _, fun _ h => h⟩
theorem Fwd.trans {a b c : St} (h1 : Fwd a b) (h2 : Fwd b c) : Fwd a c :=
  ⟨Int.le_trans h1.1 h2.1, fun x h => h2.2 x (h1.2 x h)⟩

theorem fwd_of_eq {s s' : St} (h1 : s'.now = s.now) (h2 : s'.cfg = s.cfg) : Fwd s s' :=
  ⟨by rw [h1]; exact Int.le_refl _, fun c h => by rw [h2]; exact h⟩

/-- clock and configuration of a state -/
def nc (s : St) : Int × Option Cfg := (s.now, s.cfg)

theorem fwd_of_nc {s s' : St} (h : nc s' = nc s) : Fwd s s' := by
  simp only [nc, Prod.mk.injEq] at h
  exact fwd_of_eq h.1 h.2

@[simp] theorem nc_modRef (s : St) (j : Slot) (f : RefSt → RefSt) : nc (modRef s j f) = nc s := rfl

theorem nc_ccNew (s : St) : nc (ccNewSubConn s).1 = nc s := by
  unfold ccNewSubConn; repeat' split
  all_goals rfl

theorem nc_addSubConn (s : St) : nc (addSubConn s).1 = nc s := by
  unfold addSubConn
  have h := nc_ccNew s
  generalize ccNewSubConn s = r at h
  obtain ⟨s1, o, ev⟩ := r
  cases o <;> exact h

theorem nc_updateAll (s : St) (scs : List Sc) : nc (updateAll s scs).1 = nc s := by
  unfold updateAll
  suffices h : ∀ (acc : St × List Event), nc (scs.foldl (fun (acc : St × List Event) sc =>
      ({ acc.1 with scAddrs := insert acc.1.scAddrs sc acc.1.addrs }, acc.2 ++ [.upd sc acc.1.addrs, .connect sc])) acc).1 = nc acc.1 from h (s, [])
  induction scs with
  | nil => intro acc; rfl
  | cons x xs ih => intro acc; simp only [List.foldl_cons]; rw [ih]; rfl

theorem nc_bump (s : St) (sc : Sc) (d : Int) : nc (bumpAffinity s sc d) = nc s := by
  unfold bumpAffinity; split <;> rfl

theorem nc_bind (s : St) (k : String) (sc : Sc) : nc (bindSubConn s k sc) = nc s := by
  unfold bindSubConn; rw [nc_bump]; unfold addBinding; split <;> rfl

theorem nc_foldl_bind (keys : List String) (sc : Sc) (s : St) :
    nc (keys.foldl (fun s k => bindSubConn s k sc) s) = nc s := by
  induction keys generalizing s with
  | nil => rfl
  | cons k ks ih => simp only [List.foldl_cons]; rw [ih, nc_bind]

theorem nc_refresh (s : St) (slot : Slot) : nc (refresh s slot).1 = nc s := by
  unfold refresh
  split
  · rfl
  · split
    · rfl
    · simp only
      have h := nc_ccNew (modRef s slot fun r => { r with refreshing := true })
      generalize ccNewSubConn (modRef s slot fun r => { r with refreshing := true }) = r at h
      obtain ⟨s1, o, ev⟩ := r
      cases o
      · exact h
      · exact h

theorem nc_swap (s : St) (sc : Sc) (slot : Slot) : nc (swap s sc slot).1 = nc s := by
  unfold swap; split <;> rfl

theorem nc_updCounter (s : St) (st : CState) (f : Nat → Nat) : nc (updCounter s st f) = nc s := by
  unfold updCounter; split <;> rfl

theorem nc_recordTransition (s : St) (a b : CState) : nc (recordTransition s a b) = nc s := by
  unfold recordTransition
  show nc (updCounter (updCounter s a dec64) b inc64) = nc s
  rw [nc_updCounter, nc_updCounter]

theorem nc_maybePublish (s : St) (a b c : CState) (order : List Slot) : nc (maybePublish s a b c order).1 = nc s := by
  unfold maybePublish regeneratePicker
  split
  · split <;> rfl
  · rfl

theorem nc_recordState (s : St) (sc : Sc) (st : CState) : nc (recordState s sc st).1 = nc s := by
  unfold recordState; split <;> rfl

theorem nc_cleanFallback (s : St) (sc : Sc) (a b : CState) : nc (cleanFallback s sc a b) = nc s := by
  unfold cleanFallback; split <;> split <;> rfl

theorem nc_report (s : St) (sc : Sc) (oldS st : CState) (order : List Slot) :
    nc (report s sc oldS st order).1 = nc s := by
  unfold report
  simp only
  rw [nc_maybePublish, nc_recordTransition, nc_cleanFallback, nc_recordState]

theorem fwdLeaves : Leaves Fwd where
  refl := Fwd.refl
  trans := Fwd.trans
  setAddrs _ _ := fwd_of_nc rfl
  setCfg s hc := ⟨Int.le_refl _, fun c h => by rw [hc] at h; cases h⟩
  setFail _ _ := fwd_of_nc rfl
  setNow s n := ⟨by simp only; omega, fun _ h => h⟩
  setRr _ := fwd_of_nc rfl
  setHeld _ _ := fwd_of_nc rfl
  addWaiter _ _ := fwd_of_nc rfl
  dropWaiter _ _ := fwd_of_nc rfl
  addSubConn s := fwd_of_nc (nc_addSubConn s)
  updateAll s scs := fwd_of_nc (nc_updateAll s scs)
  place s call slot cmd loc key ctx dl := by
    apply fwd_of_nc; unfold place; split <;> rfl
  getReady s c key := by
    apply fwd_of_nc
    unfold getReadySubConnRef
    repeat' split
    all_goals rfl
  refresh s slot := fwd_of_nc (nc_refresh s slot)
  completeCall s call _ := fwd_of_nc rfl
  detReset s slot := fwd_of_nc rfl
  deInc s slot := fwd_of_nc rfl
  bindAll s keys slot r _ := fwd_of_nc (nc_foldl_bind keys r.subConn s)
  unbind s key := by
    apply fwd_of_nc; unfold unbindSubConn; split
    · rfl
    · unfold dropBinding; exact nc_bump s _ _
  swap s sc slot _ := fwd_of_nc (nc_swap s sc slot)
  report s sc oldS st order _ := fwd_of_nc (nc_report s sc oldS st order)

/-- **every operation**: the clock does not go back, a configuration stays -/
theorem fwd_step (s : St) (op : Op) : Fwd s (step s op).1 := lift_step fwdLeaves s op

/-- how one operation may change a slot's detector record: a reset stamps it with the current time;
    otherwise last-response time and refresh count stay and the counter stays or goes up by one -/
def DetStep (now : Int) (d d' : Det) : Prop :=
  d'.lastResp = now ∨
  (d'.lastResp = d.lastResp ∧ d'.refreshCnt = d.refreshCnt ∧ (d'.deCalls = d.deCalls ∨ d'.deCalls = satInc d.deCalls))

theorem DetStep.same (now : Int) (d : Det) : DetStep now d d := Or.inr ⟨rfl, rfl, Or.inl rfl⟩

/-- **every operation, every slot** -/
theorem det_step (s : St) (op : Op) (i : Slot) (d : Det) (hd : detAt s i = some d) :
    ∃ d', detAt (step s op).1 i = some d' ∧ DetStep s.now d d' := by
  cases op with
  | scs sc st order =>
    obtain ⟨d', h1, h2, h3⟩ := detector_scs s sc st order i d hd
    by_cases hc : lookup s.refreshingMap sc = some i ∧ st = .ready
    · refine ⟨d', h1, Or.inl ?_⟩; rw [h2 hc]
    · refine ⟨d', h1, ?_⟩; rw [h3 hc]; exact DetStep.same _ _
  | done callId err reply =>
    cases hf : s.calls.find? (fun x => x.id == callId) with
    | none => exact ⟨d, detector_done_unknown s callId err reply hf i d hd, DetStep.same _ _⟩
    | some call =>
      cases hc : s.cfg with
      | none =>
        refine ⟨d, ?_, DetStep.same _ _⟩
        unfold step
        simp only [stepCore, opDone, hf, hc]
        exact detSame_wake s i d hd
      | some c =>
        obtain ⟨d', h1, h2, h3⟩ := detector_done s callId err reply call c hf hc i d hd
        refine ⟨d', h1, ?_⟩
        by_cases hi : i = call.slot
        · obtain ⟨e1, e2, e3, _⟩ := h3 hi
          unfold detNext at e1 e2 e3
          by_cases hdet : c.detection = true
          · simp only [hdet, Bool.not_true, Bool.false_eq_true, ↓reduceIte] at e1 e2 e3
            by_cases hr : isResponse s err call.dl = true
            · simp only [hr, ↓reduceIte] at e1
              exact Or.inl e1
            · simp only [hr, Bool.false_eq_true, ↓reduceIte] at e1 e2 e3
              by_cases hs : call.started < d.lastResp
              · simp only [hs, ↓reduceIte] at e1 e2 e3
                exact Or.inr ⟨e1, e3, Or.inl e2⟩
              · simp only [hs, ↓reduceIte] at e1 e2 e3
                exact Or.inr ⟨e1, e3, Or.inr e2⟩
          · have hdet' : c.detection = false := by simpa using hdet
            simp only [hdet', Bool.not_false, ↓reduceIte] at e1 e2 e3
            exact Or.inr ⟨e1, e3, Or.inl e2⟩
        · rw [h2 hi]; exact DetStep.same _ _
  | ccs ver => exact ⟨d, detector_quiet s (.ccs ver) trivial i d hd, DetStep.same _ _⟩
  | reserr => exact ⟨d, detector_quiet s (.reserr) trivial i d hd, DetStep.same _ _⟩
  | factory n => exact ⟨d, detector_quiet s (.factory n) trivial i d hd, DetStep.same _ _⟩
  | adv ns => exact ⟨d, detector_quiet s (.adv ns) trivial i d hd, DetStep.same _ _⟩
  | pick call pn m ctx dl req => exact ⟨d, detector_quiet s (.pick call pn m ctx dl req) trivial i d hd, DetStep.same _ _⟩
  | ctxdone call => exact ⟨d, detector_quiet s (.ctxdone call) trivial i d hd, DetStep.same _ _⟩
  | pickHold call pn m ctx dl req => exact ⟨d, detector_quiet s (.pickHold call pn m ctx dl req) trivial i d hd, DetStep.same _ _⟩
  | resume call => exact ⟨d, detector_quiet s (.resume call) trivial i d hd, DetStep.same _ _⟩

theorem windowNs_nonneg (c : Cfg) (k : Nat) : 0 ≤ windowNs c k := by
  unfold windowNs
  simp only
  split
  · decide
  · exact Int.mul_nonneg (Int.natCast_nonneg _) (by decide)

/-- the standing part of the rule of C07 for a slot's record: enough counted calls since the last
    response and more than the (doubling) window elapsed since then -/
def Due (c : Cfg) (now : Int) (d : Det) : Prop :=
  c.uc ≤ d.deCalls ∧ d.lastResp < now - windowNs c d.refreshCnt

/-- **C07, the re-validation of a decision taken outside the lock** — for every state in which the
    rule holds for a slot (the decision), every operation sequence that follows (completions of any
    calls on any slots, state reports, swaps, refreshes of other slots, resolver updates, picks, clock
    advances) and the state `s'` it leads to (where the decision is acted upon):
    * if the slot's last-response time in `s'` is still the one of the decision, the rule holds in `s'`
      too — the counter has not gone down, the refresh count is the same, the clock has not gone back;
    * otherwise a response or a completed refresh has intervened, and the new last-response time is
      not before the moment of the decision.
    So comparing the last-response time (plus "no refresh in progress", which `refresh` tests itself)
    is the whole re-validation. -/
theorem decision_still_due (ops : List Op) (s : St) (c : Cfg) (i : Slot) (d : Det)
    (hc : s.cfg = some c) (hd : detAt s i = some d) (hdue : Due c s.now d) :
    ∃ d', detAt (run s ops) i = some d' ∧ (run s ops).cfg = some c ∧ s.now ≤ (run s ops).now ∧
      (d'.lastResp = d.lastResp → Due c (run s ops).now d' ∧ d'.refreshCnt = d.refreshCnt ∧ d.deCalls ≤ d'.deCalls) ∧
      (d'.lastResp ≠ d.lastResp → s.now ≤ d'.lastResp) := by
  have hlt : d.lastResp < s.now := by
    have := windowNs_nonneg c d.refreshCnt
    have := hdue.2
    omega
  -- the invariant along the run
  suffices h : ∀ (ops : List Op) (s1 : St) (d1 : Det), detAt s1 i = some d1 → s1.cfg = some c → s.now ≤ s1.now →
      ((d1.lastResp = d.lastResp ∧ d1.refreshCnt = d.refreshCnt ∧ d.deCalls ≤ d1.deCalls) ∨ s.now ≤ d1.lastResp) →
      ∃ d', detAt (run s1 ops) i = some d' ∧ (run s1 ops).cfg = some c ∧ s.now ≤ (run s1 ops).now ∧
        ((d'.lastResp = d.lastResp ∧ d'.refreshCnt = d.refreshCnt ∧ d.deCalls ≤ d'.deCalls) ∨ s.now ≤ d'.lastResp) by
    obtain ⟨d', h1, h2, h3, h4⟩ := h ops s d hd hc (Int.le_refl _) (Or.inl ⟨rfl, rfl, Nat.le_refl _⟩)
    refine ⟨d', h1, h2, h3, ?_, ?_⟩
    · intro he
      rcases h4 with ⟨_, hr, hn⟩ | hge
      · refine ⟨⟨Nat.le_trans hdue.1 hn, ?_⟩, hr, hn⟩
        rw [he, hr]
        have := hdue.2
        omega
      · rw [he] at hge; omega
    · intro hne
      rcases h4 with ⟨he, _, _⟩ | hge
      · exact absurd he hne
      · exact hge
  intro ops
  induction ops with
  | nil => intro s1 d1 h1 h2 h3 h4; exact ⟨d1, h1, h2, h3, h4⟩
  | cons op rest ih =>
    intro s1 d1 h1 h2 h3 h4
    obtain ⟨d2, g1, g2⟩ := det_step s1 op i d1 h1
    have hf := fwd_step s1 op
    have hnow : s.now ≤ (step s1 op).1.now := Int.le_trans h3 hf.1
    have hcfg : (step s1 op).1.cfg = some c := hf.2 c h2
    have hk : (d2.lastResp = d.lastResp ∧ d2.refreshCnt = d.refreshCnt ∧ d.deCalls ≤ d2.deCalls) ∨ s.now ≤ d2.lastResp := by
      rcases g2 with hreset | ⟨e1, e2, e3⟩
      · right; rw [hreset]; exact h3
      · rcases h4 with ⟨k1, k2, k3⟩ | hge
        · left
          refine ⟨by rw [e1, k1], by rw [e2, k2], ?_⟩
          rcases e3 with e3 | e3
          · rw [e3]; exact k3
          · rw [e3]; exact Nat.le_trans k3 (satInc_counts d1.deCalls).2.1
        · right; rw [e1]; exact hge
    exact ih (step s1 op).1 d2 g1 hcfg hnow hk

/-! ### when a call starts (the detector compares it with the slot's last response) -/

/-- a placed call starts at the moment of its placement -/
theorem place_started (s : St) (call : Nat) (slot : Slot) (cmd : Cmd) (loc : Loc) (key : String) (ctx : CtxKind)
    (dl : Option Int) : (place s call slot cmd loc key ctx dl).1.now = s.now ∧
    ∀ c ∈ (place s call slot cmd loc key ctx dl).1.calls, c ∈ s.calls ∨ c.started = s.now := by
  unfold place
  split
  · exact ⟨rfl, fun c hc => Or.inl hc⟩
  · refine ⟨rfl, fun c hc => ?_⟩
    simp only [modRef, List.mem_append, List.mem_singleton] at hc
    rcases hc with hc | hc
    · exact Or.inl hc
    · right; rw [hc]

/-- **a round-robin BIND call that waited for its channel starts when it is handed the channel**, not when
    `Pick` was entered: every call the wake-up pass puts in flight carries the current time -/
theorem woken_call_starts_now (s : St) :
    (wakeWaiters s).1.now = s.now ∧ ∀ c ∈ (wakeWaiters s).1.calls, c ∈ s.calls ∨ c.started = s.now := by
  unfold wakeWaiters
  suffices h : ∀ (l : List Waiter) (acc : St × List Event), (acc.1.now = s.now ∧ ∀ c ∈ acc.1.calls, c ∈ s.calls ∨ c.started = s.now) →
      ((l.foldl (fun (acc : St × List Event) w =>
        if slotReady acc.1 w.slot then
          match placeWaiter { acc.1 with waiters := acc.1.waiters.filter fun x => x.id != w.id } w with
          | (s, some sc) => (s, acc.2 ++ [.woke w.id sc])
          | (_, none) => acc
        else acc) acc).1.now = s.now ∧
       ∀ c ∈ (l.foldl (fun (acc : St × List Event) w =>
        if slotReady acc.1 w.slot then
          match placeWaiter { acc.1 with waiters := acc.1.waiters.filter fun x => x.id != w.id } w with
          | (s, some sc) => (s, acc.2 ++ [.woke w.id sc])
          | (_, none) => acc
        else acc) acc).1.calls, c ∈ s.calls ∨ c.started = s.now) from
    h s.waiters (s, []) ⟨rfl, fun c hc => Or.inl hc⟩
  intro l
  induction l with
  | nil => intro acc h; exact h
  | cons w ws ih =>
    intro acc h
    simp only [List.foldl_cons]
    apply ih
    split
    · have hp := place_started { acc.1 with waiters := acc.1.waiters.filter fun x => x.id != w.id } w.id w.slot .bind w.loc "" w.ctx w.dl
      unfold placeWaiter
      generalize place { acc.1 with waiters := acc.1.waiters.filter fun x => x.id != w.id } w.id w.slot .bind w.loc "" w.ctx w.dl = r at hp
      obtain ⟨s2, o⟩ := r
      cases o with
      | none => exact h
      | some sc =>
        simp only at hp ⊢
        refine ⟨hp.1.trans h.1, fun c hc => ?_⟩
        rcases hp.2 c hc with h1 | h1
        · exact h.2 c h1
        · right; rw [h1]; exact h.1
    · exact h

/-! non-vacuity: a history after which the rule holds for slot 0 (two calls past their deadlines, uc = 2:
    the second one is about to decide), and the two continuations of `donepark`: the other completion
    refreshes, the replacement takes over and a fresh call is counted — the last-response time has moved;
    or nothing but unrelated operations happen — it has not, and the rule still holds -/
def staleCfg : CfgInput := .given { min := 1, max := 1, wm := 100, fb := false, rr := false, uc := 2, ums := 1, methods := true }
def staleOps : List Op := [.ccs 1, .scs 0 .ready [0], .pick 1 0 "plain" .gcp (some 0) (.msg ⟨"", []⟩),
  .pick 2 0 "plain" .gcp (some 0) (.msg ⟨"", []⟩), .pick 3 0 "plain" .gcp (some 0) (.msg ⟨"", []⟩), .adv 1000001,
  .done 1 .deClient ⟨"", []⟩, .done 2 .deClient ⟨"", []⟩]

example : (detAt (run (init staleCfg) staleOps) 0).map (fun d => (d.lastResp, d.deCalls, d.refreshing)) = some (0, 2, true) := by
  decide +kernel
example : (run (init staleCfg) staleOps).cfg = some (initialCfg staleCfg) ∧
    Due (initialCfg staleCfg) (run (init staleCfg) staleOps).now ⟨0, 2, 0, true⟩ := by
  unfold Due; decide +kernel
example : (detAt (run (init staleCfg) (staleOps ++ [.scs 1 .ready [0], .pick 4 0 "plain" .gcp (some 0) (.msg ⟨"", []⟩),
    .done 4 .deClient ⟨"", []⟩])) 0).map (fun d => (d.lastResp, d.deCalls, d.refreshing)) = some (1000001, 1, false) := by
  decide +kernel
example : (detAt (run (init staleCfg) (staleOps ++ [.adv 5, .done 3 .deClient ⟨"", []⟩])) 0).map
    (fun d => (d.lastResp, d.deCalls, d.refreshing)) = some (0, 3, true) := by
  decide +kernel

end GcpVerif.Pool
