/-
C15 / C16 — theorems about the GCPMultiEndpoint model (after fixes F15 / F16).
Every statement holds for every switching delay the MultiEndpoints are configured with.
-/
import GcpVerif.Model.GME
namespace GcpVerif.GME

theorem notifyAll_fields (s : St) (e : String) (a : Bool) :
    (notifyAll s e a).pools = s.pools ∧ (notifyAll s e a).dials = s.dials ∧ (notifyAll s e a).closed = s.closed ∧
    (notifyAll s e a).defaultName = s.defaultName ∧ (notifyAll s e a).alive = s.alive := by simp [notifyAll]

theorem foldl_notify_fields (l : List String) (r : String → Bool) (s : St) :
    (l.foldl (fun s e => notifyAll s e (r e)) s).pools = s.pools ∧
    (l.foldl (fun s e => notifyAll s e (r e)) s).dials = s.dials ∧
    (l.foldl (fun s e => notifyAll s e (r e)) s).closed = s.closed ∧
    (l.foldl (fun s e => notifyAll s e (r e)) s).defaultName = s.defaultName ∧
    (l.foldl (fun s e => notifyAll s e (r e)) s).alive = s.alive := by
  induction l generalizing s with
  | nil => simp
  | cons x xs ih =>
    simp only [List.foldl_cons]
    have h1 := ih (notifyAll s x (r x))
    have h2 := notifyAll_fields s x (r x)
    exact ⟨h1.1.trans h2.1, h1.2.1.trans h2.2.1, h1.2.2.1.trans h2.2.2.1, h1.2.2.2.1.trans h2.2.2.2.1, h1.2.2.2.2.trans h2.2.2.2.2⟩

/-- **C16** a rejected update changes nothing: every RPC is routed exactly as before -/
theorem failed_update_is_identity (s : St) (d : String) (o : Opts) (f : List String) (r : String → Bool)
    (dl : Int) (h : (update s d o f r dl).2 = false) : (update s d o f r dl).1 = s := by
  unfold update at h ⊢
  by_cases hv : optsValid d o = true
  · simp only [hv, Bool.not_true, Bool.false_eq_true, ↓reduceIte] at h ⊢
    split at h
    · rename_i hf; simp only [hf, ↓reduceIte]
    · simp at h
  · simp [hv]

/-- **C16** invalid options are rejected: default name without options, a MultiEndpoint with an
    empty endpoint list or nil options -/
theorem invalid_options_rejected (s : St) (d : String) (o : Opts) (f : List String) (r : String → Bool)
    (dl : Int) (h : optsValid d o = false) : (update s d o f r dl).2 = false := by
  simp [update, h]

/-- **C16** a dial failure at any dial rejects the update -/
theorem dial_failure_rejected (s : St) (d : String) (o : Opts) (f : List String) (r : String → Bool)
    (dl : Int) (e : String) (he : e ∈ validEndpoints o) (hnew : e ∉ s.pools) (hf : e ∈ f) :
    (update s d o f r dl).2 = false := by
  unfold update
  by_cases hv : optsValid d o = true
  · simp only [hv, Bool.not_true, Bool.false_eq_true, ↓reduceIte]
    have : ((validEndpoints o).filter fun e => !s.pools.contains e).any (fun e => f.contains e) = true := by
      simp only [List.any_eq_true, List.mem_filter]
      exact ⟨e, ⟨he, by simpa using hnew⟩, by simpa using hf⟩
    simp only [this, ↓reduceIte]
  · simp [hv]

/-- **C15** after a successful update there is exactly one open pool per endpoint mentioned by any
    configured MultiEndpoint -/
theorem pools_exact_after_update (s : St) (d : String) (o : Opts) (f : List String) (r : String → Bool)
    (dl : Int) (h : (update s d o f r dl).2 = true) :
    ∀ e, e ∈ (update s d o f r dl).1.pools ↔ e ∈ validEndpoints o := by
  unfold update at h ⊢
  by_cases hv : optsValid d o = true
  · simp only [hv, Bool.not_true, Bool.false_eq_true, ↓reduceIte] at h ⊢
    split at h
    · simp at h
    · rename_i hnf
      simp only [hnf, Bool.false_eq_true, ↓reduceIte]
      intro e
      simp only [List.mem_filter, List.mem_append, List.contains_iff_mem, decide_eq_true_eq]
      constructor
      · intro h'; exact h'.2
      · intro he
        refine ⟨?_, he⟩
        by_cases hp : e ∈ s.pools
        · exact Or.inl hp
        · exact Or.inr ⟨he, by simpa using hp⟩
  · simp [hv] at h

/-- **C15** pools that are kept are not dialled again: only endpoints without an open pool are dialled -/
theorem only_missing_dialled (s : St) (o : Opts) :
    ∀ e ∈ ((validEndpoints o).filter fun e => !s.pools.contains e), e ∉ s.pools := by
  intro e he
  simp only [List.mem_filter, Bool.not_eq_eq_eq_not, Bool.not_true, List.contains_eq_mem, decide_eq_false_iff_not] at he
  exact he.2

/-- **C16** Close() closes every pool -/
theorem close_releases_all (s : St) : (close s).pools = [] ∧ (close s).alive = false ∧
    ∀ e ∈ s.pools, e ∈ (close s).closed := by
  refine ⟨rfl, rfl, ?_⟩
  intro e he
  simp [close, he]

/-- **K9** (known finding, in the model as in the code) Close() releases the pools but leaves the timers of
    the MultiEndpoints armed: a MultiEndpoint [a, b] with a switching delay that was told "b available", then
    "a available", has a delayed switch pending, and still has it after Close() -/
theorem close_leaves_timers :
    let s1 := (update init "m" [("m", some ["a", "b"])] [] (fun _ => false) 5).1
    let s3 := notifyAll (notifyAll s1 "b" true) "a" true
    (close s3).pools = [] ∧ (close s3).mes.any (fun p => p.2.timers.any fun t => !t.stopped) = true := by decide

/-- **C15** an RPC goes through the pool of the endpoint that is current for the MultiEndpoint
    named in its context, or for the default one when the context names none or an unknown one -/
theorem rpc_routes_current (s : St) (name : Option String) (e : String) (h : rpc s name = some e) :
    ∃ me, pickME s name = some me ∧ me.current = e ∧ e ∈ s.pools := by
  unfold rpc at h
  cases hp : pickME s name with
  | none => simp [hp] at h
  | some me =>
    simp only [hp] at h
    split at h
    · rename_i hc
      simp only [Option.some.injEq] at h
      exact ⟨me, rfl, h, by rw [← h]; simpa using hc⟩
    · cases h

theorem pickME_known (s : St) (n : String) (me : ME.St) (h : findME s n = some me) :
    pickME s (some n) = some me := by simp [pickME, h]

theorem pickME_unknown (s : St) (n : String) (h : findME s n = none) :
    pickME s (some n) = findME s s.defaultName := by simp [pickME, h]

theorem pickME_no_name (s : St) : pickME s none = findME s s.defaultName := by simp [pickME]

end GcpVerif.GME
