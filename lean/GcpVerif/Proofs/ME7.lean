/-
MultiEndpoint, two statements that were monitors only:

* C13 `list_and_priorities`: after any history the table holds exactly the endpoints of the last
  accepted list (the constructor's or the last accepted SetEndpoints'), each once, and an endpoint's
  priority is a position at which the list names it. (This is the machine `stepRaw`/`initRaw`; the API
  drops later repetitions of a name first, so that position is the first occurrence: Proofs/MEApi.lean.)
* C14 `recovering_timer_count`: there are at least as many live recovery timers as recovering
  endpoints (a counting consequence of the per-endpoint timer invariant `TInv.recov`).
-/
import GcpVerif.Proofs.ME3
import GcpVerif.Spec.ME
namespace GcpVerif.ME

/-- identity and priority of every table entry, in table order -/
def vw (s : St) : List (String × Nat) := s.eps.map fun e => (e.id, e.prio)

theorem ids_eq_vw (s : St) : ids s.eps = (vw s).map (·.1) := by
  simp [ids, vw, List.map_map, Function.comp]

theorem vw_of_map {s s' : St} (f : Ep → Ep) (hid : ∀ e, (f e).id = e.id) (hpr : ∀ e, (f e).prio = e.prio)
    (heps : s'.eps = s.eps.map f) : vw s' = vw s := by
  simp only [vw, heps, List.map_map]
  apply List.map_congr_left
  intro e _
  simp [Function.comp, hid, hpr]

theorem vw_of_eps {s s' : St} (h : s'.eps = s.eps) : vw s' = vw s := by simp [vw, h]

theorem vw_setStateEp (s : St) (e : Ep) (st : Status) : vw (setStateEp s e st) = vw s := by
  apply vw_of_map (fun x => if x.id == e.id then touch st s.now x else x)
  · intro x; split <;> simp [touch]
  · intro x; split <;> simp [touch]
  · simp [setStateEp, updId]

theorem vw_setStateOrphan (s : St) (e : Ep) (st : Status) : vw (setStateOrphan s e st) = vw s :=
  vw_of_eps (by simp [setStateOrphan])

theorem vw_scheduleUnavailable (s : St) (e : Ep) (stamp : Option Int) :
    vw (scheduleUnavailable s e stamp) = vw s := by
  apply vw_of_map (fun x => if x.id == e.id then { x with timer := some s.nextTid } else x)
  · intro x; split <;> simp
  · intro x; split <;> simp
  · simp [scheduleUnavailable, updId, addTimer]

theorem vw_muc (s : St) : vw (maybeUpdateCurrent s) = vw s := vw_of_eps (muc_fields s).1

theorem vw_sea (s : St) (id : String) (a : Bool) : vw (setEndpointAvailability s id a) = vw s := by
  unfold setEndpointAvailability
  split
  · rfl
  · split
    · exact vw_setStateEp _ _ _
    · split
      · rfl
      · split
        · exact vw_setStateEp _ _ _
        · rw [vw_scheduleUnavailable, vw_setStateEp]

theorem vw_fireSwitch (s : St) : vw (fireSwitch s) = vw s := by
  unfold fireSwitch
  split
  · split
    · split
      · split
        · rfl
        · rfl
      · rfl
    · rfl
  · rfl

theorem vw_fireRecovery (s : St) (obj : Nat) (id : String) (stamp : Option Int) :
    vw (fireRecovery s obj id stamp) = vw s := by
  unfold fireRecovery
  simp only
  split
  · split
    · rfl
    · rw [vw_muc, vw_setStateEp]
  · split
    · rfl
    · split
      · rfl
      · rw [vw_muc, vw_setStateOrphan]

theorem vw_opFire (s : St) (tid : Nat) : vw (opFire s tid).1 = vw s := by
  unfold opFire
  split
  · rfl
  · split
    · rfl
    · simp only
      split
      · rw [vw_fireSwitch]; rfl
      · rw [vw_fireRecovery]; rfl

/-- no operation other than an accepted SetEndpoints changes which endpoints the table holds or
    their priorities -/
theorem vw_step (s : St) (op : Op) (h : ∀ l, op = .setEndpoints l → l.isEmpty = true) :
    vw (stepRaw s op).1 = vw s := by
  cases op with
  | setAvail e a => simp only [stepRaw, opSetAvail]; rw [vw_muc, vw_sea]
  | setEndpoints l =>
    have := h l rfl
    simp [stepRaw, opSetEndpoints, this]
  | advance dt => rfl
  | fire tid => exact vw_opFire s tid

/-! ### the list a table was built from -/

/-- the table is exactly the list: every entry sits at a position of the list that names it, every
    name of the list has an entry, no name has two -/
structure ListOk (s : St) (l : List String) : Prop where
  nd : (ids s.eps).Nodup
  pos : ∀ e ∈ s.eps, l[e.prio]? = some e.id
  cover : ∀ id ∈ l, id ∈ ids s.eps

theorem listOk_of_vw {s s' : St} {l : List String} (hv : vw s' = vw s) (h : ListOk s l) : ListOk s' l := by
  have hids : ids s'.eps = ids s.eps := by rw [ids_eq_vw, ids_eq_vw, hv]
  refine ⟨hids ▸ h.nd, ?_, fun id hid => hids ▸ h.cover id hid⟩
  intro e he
  have : (e.id, e.prio) ∈ vw s' := List.mem_map.mpr ⟨e, he, rfl⟩
  rw [hv] at this
  obtain ⟨e0, he0, heq⟩ := List.mem_map.mp this
  simp only [Prod.mk.injEq] at heq
  rw [← heq.1, ← heq.2]
  exact h.pos e0 he0

theorem getElem?_append_of_some {l : List String} {i : Nat} {x : String} (y : String)
    (h : l[i]? = some x) : (l ++ [y])[i]? = some x := by
  have hlt : i < l.length := by
    rcases Nat.lt_or_ge i l.length with h' | h'
    · exact h'
    · rw [List.getElem?_eq_none h'] at h; cases h
  rw [List.getElem?_append_left hlt]; exact h

/-- loop invariant of the add/update loop: `done` is the part of the list already walked -/
structure AInv (s : St) (done rest : List String) : Prop where
  nd : (ids s.eps).Nodup
  inl : ∀ e ∈ s.eps, e.id ∈ done ∨ e.id ∈ rest
  pos : ∀ e ∈ s.eps, e.id ∈ done → done[e.prio]? = some e.id

theorem addOrUpdate_list {s : St} {done rest : List String} (h : AInv s done rest) :
    AInv (addOrUpdate s rest done.length) (done ++ rest) [] := by
  induction rest generalizing s done with
  | nil => simpa [addOrUpdate] using h
  | cons x xs ih =>
    rw [addOrUpdate_cons]
    have hlen : (done ++ [x]).length = done.length + 1 := by simp
    have happ : done ++ x :: xs = (done ++ [x]) ++ xs := by simp
    cases hfind : findEp s.eps x with
    | none =>
      simp only
      have hf := newEndpoint_fields s x done.length
      have hnot : x ∉ ids s.eps := by
        intro hx
        simp only [ids, List.mem_map] at hx
        obtain ⟨e, he, hex⟩ := hx
        exact (findEp_none.mp hfind) e he hex
      rw [happ, ← hlen]
      apply ih
      constructor
      · simp only [ids, List.map_append, List.map_cons, List.map_nil, hf.1, hf.2.2.2.2.1]
        have := h.nd
        simp only [ids] at this hnot
        exact List.nodup_append.mpr ⟨this, by simp, by
          intro a ha b hb; simp only [List.mem_singleton] at hb; subst hb; intro hab; subst hab; exact hnot ha⟩
      · intro e he
        simp only [List.mem_append, List.mem_singleton, hf.1] at he
        rcases he with he | he
        · rcases h.inl e he with h1 | h1
          · left; simp [h1]
          · simp only [List.mem_cons] at h1
            rcases h1 with h1 | h1
            · left; simp [h1]
            · right; exact h1
        · subst he; left; simp [hf.2.2.2.2.1]
      · intro e he hin
        simp only [List.mem_append, List.mem_singleton, hf.1] at he
        rcases he with he | he
        · have hne : e.id ≠ x := (findEp_none.mp hfind) e he
          have hd : e.id ∈ done := by
            simp only [List.mem_append, List.mem_singleton] at hin
            rcases hin with h1 | h1
            · exact h1
            · exact absurd h1 hne
          exact getElem?_append_of_some x (h.pos e he hd)
        · subst he
          rw [hf.2.2.2.2.1, hf.2.2.2.2.2]
          simp
    | some e0 =>
      simp only
      rw [happ, ← hlen]
      apply ih
      have hidsame : ids (s.eps.map fun e => if e.id == x then { e with prio := done.length } else e) = ids s.eps := by
        simp only [ids, List.map_map]
        apply List.map_congr_left
        intro e _
        simp only [Function.comp]
        split <;> rfl
      constructor
      · simp only; rw [hidsame]; exact h.nd
      · intro e he
        simp only [List.mem_map] at he
        obtain ⟨a, ha, rfl⟩ := he
        have hida : (if a.id == x then { a with prio := done.length } else a).id = a.id := by split <;> rfl
        rw [hida]
        rcases h.inl a ha with h1 | h1
        · left; simp [h1]
        · simp only [List.mem_cons] at h1
          rcases h1 with h1 | h1
          · left; simp [h1]
          · right; exact h1
      · intro e he hin
        simp only [List.mem_map] at he
        obtain ⟨a, ha, rfl⟩ := he
        by_cases hax : a.id = x
        · simp [hax]
        · have hb : (a.id == x) = false := by simpa using hax
          simp only [hb, Bool.false_eq_true, ↓reduceIte] at hin ⊢
          have hd : a.id ∈ done := by
            simp only [List.mem_append, List.mem_singleton] at hin
            rcases hin with h1 | h1
            · exact h1
            · exact absurd h1 hax
          exact getElem?_append_of_some x (h.pos a ha hd)

theorem ids_filter_nodup {l : List Ep} (p : Ep → Bool) (h : (ids l).Nodup) : (ids (l.filter p)).Nodup := by
  apply List.Nodup.sublist _ h
  exact List.Sublist.map _ List.filter_sublist

/-- an accepted SetEndpoints leaves exactly the endpoints of its list, at positions of that list -/
theorem setEndpoints_list (s : St) (l : List String) (hl : l.isEmpty = false) (hnd : (ids s.eps).Nodup) :
    ListOk (opSetEndpoints s l).1 l := by
  simp only [opSetEndpoints, hl, Bool.false_eq_true, ↓reduceIte]
  have h0 : AInv (dropObsolete s l) [] l := by
    constructor
    · exact ids_filter_nodup _ hnd
    · intro e he
      simp only [dropObsolete, List.mem_filter] at he
      right; simpa using he.2
    · intro e _ hin; cases hin
  have h1 := addOrUpdate_list h0
  simp only [List.nil_append, List.length_nil] at h1
  have hcov := addOrUpdate_mem_ids (dropObsolete s l) l 0
  have heps := (muc_fields (addOrUpdate (dropObsolete s l) l 0)).1
  refine ⟨by rw [heps]; exact h1.nd, ?_, ?_⟩
  · intro e he
    rw [heps] at he
    have := h1.inl e he
    simp only [List.not_mem_nil, or_false] at this
    exact h1.pos e he this
  · intro id hid
    rw [heps]
    exact hcov id (Or.inl hid)

/-- loop invariant of the constructor's loop -/
structure IInv (s : St) (done : List String) : Prop where
  nd : (ids s.eps).Nodup
  pos : ∀ e ∈ s.eps, done[e.prio]? = some e.id

theorem initLoop_list {s : St} {done rest : List String} (h : IInv s done) :
    IInv (initLoop s rest done.length) (done ++ rest) := by
  induction rest generalizing s done with
  | nil => simpa [initLoop] using h
  | cons x xs ih =>
    rw [initLoop_cons]
    have hlen : (done ++ [x]).length = done.length + 1 := by simp
    have happ : done ++ x :: xs = (done ++ [x]) ++ xs := by simp
    have hf := newEndpoint_fields s x done.length
    rw [happ, ← hlen]
    apply ih
    constructor
    · simp only [ids, List.map_append, List.map_cons, List.map_nil, hf.1, hf.2.2.2.2.1]
      have h1 := ids_filter_nodup (fun y => y.id != x) h.nd
      simp only [ids] at h1
      exact List.nodup_append.mpr ⟨h1, by simp, by
        intro a ha b hb; simp only [List.mem_singleton] at hb; subst hb; intro hab; subst hab
        simp only [List.mem_map, List.mem_filter] at ha
        obtain ⟨e, he, hex⟩ := ha
        simp [hex] at he⟩
    · intro e he
      simp only [List.mem_append, List.mem_filter, List.mem_singleton, hf.1] at he
      rcases he with he | he
      · exact getElem?_append_of_some x (h.pos e he.1)
      · subst he
        rw [hf.2.2.2.2.1, hf.2.2.2.2.2]
        simp

theorem init_list {r d : Int} {l : List String} {s : St} (h : initRaw r d l = some s) : ListOk s l := by
  cases l with
  | nil => simp [initRaw] at h
  | cons first rest =>
    simp only [initRaw, Option.some.injEq] at h
    subst h
    have h0 : IInv { r := r, d := d, eps := [], orphans := [], current := first, future := "",
                     timers := [], now := 0, nextObj := 0, nextTid := 0 } [] := by
      constructor <;> simp [ids]
    have h1 := initLoop_list (rest := first :: rest) h0
    simp only [List.nil_append, List.length_nil] at h1
    refine ⟨h1.nd, h1.pos, ?_⟩
    intro id hid
    exact initLoop_mem_ids _ (first :: rest) 0 id (Or.inl hid)

/-- the list in force after an operation: an accepted SetEndpoints replaces it -/
def lastList (l : List String) : Op → List String
  | .setEndpoints l' => if l'.isEmpty then l else l'
  | _ => l

/-- reachability together with the last accepted list (ghost) -/
inductive ReachL : St → List String → Prop where
  | initRaw {r d : Int} {l : List String} {s : St} : 0 ≤ r → 0 ≤ d → initRaw r d l = some s → ReachL s l
  | stepRaw {s : St} {l : List String} (op : Op) : ReachL s l → ReachL (stepRaw s op).1 (lastList l op)

theorem ReachL.reach {s : St} {l : List String} (h : ReachL s l) : Reach s := by
  induction h with
  | initRaw hr hd hi => exact Reach.initRaw hr hd hi
  | stepRaw op _ ih => exact Reach.stepRaw op ih

theorem reach_has_list {s : St} (h : Reach s) : ∃ l, ReachL s l := by
  induction h with
  | initRaw hr hd hi => exact ⟨_, ReachL.initRaw hr hd hi⟩
  | stepRaw op _ ih => obtain ⟨l, hl⟩ := ih; exact ⟨_, ReachL.stepRaw op hl⟩

/-- **C13** after any history — reports, list replacements (accepted or rejected), clock advances,
    timers firing — the table holds exactly the endpoints of the last accepted list, each once, and
    every endpoint's priority is a position at which that list names it -/
theorem list_and_priorities {s : St} {l : List String} (h : ReachL s l) : ListOk s l := by
  induction h with
  | initRaw _ _ hi => exact init_list hi
  | @stepRaw s l op _ ih =>
    by_cases hop : ∀ l', op = .setEndpoints l' → l'.isEmpty = true
    · have hl : lastList l op = l := by
        cases op with
        | setEndpoints l' => simp [lastList, hop l' rfl]
        | _ => rfl
      rw [hl]
      exact listOk_of_vw (vw_step s op hop) ih
    · have : ∃ l', op = .setEndpoints l' ∧ l'.isEmpty = false := by
        cases op with
        | setEndpoints l' =>
          refine ⟨l', rfl, ?_⟩
          cases hl' : l'.isEmpty with
          | false => rfl
          | true => exact absurd (fun l'' h'' => by cases h''; exact hl') hop
        | setAvail e a => exact absurd (fun _ h' => by cases h') hop
        | advance dt => exact absurd (fun _ h' => by cases h') hop
        | fire t => exact absurd (fun _ h' => by cases h') hop
      obtain ⟨l', rfl, hl'⟩ := this
      simp only [lastList, hl', Bool.false_eq_true, ↓reduceIte, stepRaw]
      exact setEndpoints_list s l' hl' ih.nd

theorem reach_ids_nodup {s : St} (h : Reach s) : (ids s.eps).Nodup := by
  obtain ⟨l, hl⟩ := reach_has_list h
  exact (list_and_priorities hl).nd

-- the raw machine on a list with a repetition (the API never passes it one, see MEApi.lean)
example : ∃ s, ReachL s ["b", "a", "b"] ∧ vw s = [("a", 1), ("b", 2)] :=
  ⟨_, ReachL.initRaw (r := 5) (d := 0) (l := ["b", "a", "b"]) (by decide) (by decide) rfl, by decide⟩

/-! ### C14: at least as many live recovery timers as recovering endpoints -/

theorem length_le_of_inj {α β : Type} [DecidableEq β] (f : α → β) :
    ∀ (R : List α) (T : List β), (R.map f).Nodup → (∀ x ∈ R, f x ∈ T) → R.length ≤ T.length := by
  intro R
  induction R with
  | nil => intro T _ _; simp
  | cons x xs ih =>
    intro T hnd hsub
    simp only [List.map_cons, List.nodup_cons] at hnd
    have hx : f x ∈ T := hsub x (by simp)
    have h1 := ih (T.erase (f x)) hnd.2 (by
      intro y hy
      have hne : f y ≠ f x := by
        intro heq
        exact hnd.1 (heq ▸ List.mem_map.mpr ⟨y, hy, rfl⟩)
      exact (List.mem_erase_of_ne hne).mpr (hsub y (by simp [hy])))
    rw [List.length_erase_of_mem hx] at h1
    have : 0 < T.length := List.length_pos_of_mem hx
    simp only [List.length_cons]
    omega

/-- **C14** in every reachable state there are at least as many live (not stopped) recovery timers
    as there are recovering endpoints: each recovering endpoint owns its own one -/
theorem recovering_timer_count {s : St} (h : Reach s) : c14_recovering_timer s = true := by
  have ht := reach_tinv h
  have hi := reach_inv h
  have hnd := reach_ids_nodup h
  unfold c14_recovering_timer liveRecoveryCount
  apply decide_eq_true
  let R := s.eps.filter fun e => e.status == .recovering
  let T := ((liveTimers s).filter isRecoveryTimer).map fun t => some t.tid
  have hle : R.length ≤ T.length := by
    apply length_le_of_inj (fun e : Ep => e.timer) R T
    · -- distinct recovering endpoints own distinct timers
      have hp : s.eps.Pairwise (fun a b => a.id ≠ b.id) := by
        have := hnd; simp only [ids, List.Nodup, List.pairwise_map] at this; exact this
      have hpR : R.Pairwise (fun a b => a.id ≠ b.id) := hp.filter _
      simp only [List.Nodup, List.pairwise_map]
      apply hpR.imp_of_mem
      intro a b ha hb hab heq
      have ha' := List.mem_filter.mp ha
      have hb' := List.mem_filter.mp hb
      obtain ⟨t, _, hta, _, _⟩ := ht.recov a ha'.1 (by simpa using ha'.2) (by simp)
      have hbt : b.timer = some t.tid := by rw [← heq]; exact hta
      have hobj := ht.own a (by simp [U, ha'.1]) b (by simp [U, hb'.1]) t.tid hta hbt
      exact hab (ht.objId a ha'.1 b hb'.1 hobj)
    · intro x hx
      have hx' := List.mem_filter.mp hx
      obtain ⟨t, htm, htx, hlive, hk⟩ := ht.recov x hx'.1 (by simpa using hx'.2) (by simp)
      simp only [T, List.mem_map, List.mem_filter, liveTimers]
      exact ⟨t, ⟨⟨htm, by simp [hlive]⟩, by simp [isRecoveryTimer, hk]⟩, htx.symm⟩
  simpa [R, T] using hle

end GcpVerif.ME
