/-
C16 at Reach level: after any sequence of accepted and rejected updates and pool notifications, as
long as the object has been constructed and not closed, every RPC — whatever name its context
carries — finds a MultiEndpoint, and the endpoint that is current for it has an open pool.
-/
import GcpVerif.Proofs.GME
import GcpVerif.Proofs.ME5
namespace GcpVerif.GME

/-- states reachable through the API (construction = the first successful update of `init`) -/
inductive Reach : St → Prop where
  | init : Reach init
  | update {s : St} (d : String) (o : Opts) (f : List String) (r : String → Bool) (dl : Int) :
      Reach s → Reach (update s d o f r dl).1
  | pstate {s : St} (e : String) (a : Bool) : Reach s → Reach (notifyAll s e a)
  | close {s : St} : Reach s → Reach (close s)

structure G (s : St) : Prop where
  meReach : ∀ p ∈ s.mes, ME.Reach p.2
  sub : s.alive = true → ∀ p ∈ s.mes, ∀ e ∈ p.2.eps, e.id ∈ s.pools
  dflt : s.alive = true → ∃ me, findME s s.defaultName = some me

theorem findME_mem {s : St} {n : String} {me : ME.St} (h : findME s n = some me) : (n, me) ∈ s.mes := by
  unfold findME at h
  cases hf : s.mes.find? (fun p => p.1 == n) with
  | none => rw [hf] at h; cases h
  | some p =>
    rw [hf] at h
    simp only [Option.map_some, Option.some.injEq] at h
    have hm := List.mem_of_find?_eq_some hf
    have hn : p.1 = n := by simpa using List.find?_some hf
    rw [← hn, ← h]; exact hm

theorem exists_findME {s : St} {n : String} {me : ME.St} (h : (n, me) ∈ s.mes) : ∃ me', findME s n = some me' := by
  unfold findME
  have hsome : (s.mes.find? fun p => p.1 == n).isSome = true := by
    rw [List.find?_isSome]
    exact ⟨(n, me), h, by simp⟩
  cases hfd : s.mes.find? (fun p => p.1 == n) with
  | none => rw [hfd] at hsome; cases hsome
  | some q => exact ⟨q.2, rfl⟩

theorem findME_notify (s : St) (e : String) (a : Bool) (n : String) :
    findME (notifyAll s e a) n = (findME s n).map fun me => ME.opSetAvail me e a := by
  unfold findME notifyAll
  simp only
  induction s.mes with
  | nil => rfl
  | cons hd tl ih =>
    simp only [List.map_cons, List.find?_cons]
    by_cases h : (hd.1 == n) = true
    · simp [h]
    · have h' : (hd.1 == n) = false := by simpa using h
      simp only [h', Bool.false_eq_true, ↓reduceIte]
      exact ih

theorem g_notify {s : St} (h : G s) (e : String) (a : Bool) : G (notifyAll s e a) := by
  have hf := notifyAll_fields s e a
  constructor
  · intro p hp
    simp only [notifyAll, List.mem_map] at hp
    obtain ⟨q, hq, rfl⟩ := hp
    exact ME.Reach.stepRaw (.setAvail e a) (h.meReach q hq)
  · intro hal p hp x hx
    rw [hf.2.2.2.2] at hal
    rw [hf.1]
    simp only [notifyAll, List.mem_map] at hp
    obtain ⟨q, hq, rfl⟩ := hp
    obtain ⟨y, hy, hxy⟩ := ME.opSetAvail_ids q.2 e a x hx
    rw [hxy]; exact h.sub hal q hq y hy
  · intro hal
    rw [hf.2.2.2.2] at hal
    obtain ⟨me, hme⟩ := h.dflt hal
    rw [hf.2.2.2.1, findME_notify, hme]
    exact ⟨_, rfl⟩

theorem g_foldl_notify (l : List String) (r : String → Bool) : ∀ s, G s → G (l.foldl (fun s e => notifyAll s e (r e)) s) := by
  induction l with
  | nil => intro s h; exact h
  | cons x xs ih => intro s h; exact ih _ (g_notify h x (r x))

theorem mem_validEndpoints {opts : Opts} {n : String} {l : List String} {e : String}
    (hp : (n, some l) ∈ opts) (he : e ∈ l) : e ∈ validEndpoints opts := by
  unfold validEndpoints
  rw [List.mem_eraseDups]
  apply List.mem_flatten.mpr
  exact ⟨l, List.mem_map.mpr ⟨(n, some l), hp, rfl⟩, he⟩

/-- telling a MultiEndpoint about endpoints keeps it reachable and changes no endpoint's identity -/
theorem tellOwn_reach (r : String → Bool) (l : List String) : ∀ (me : ME.St), ME.Reach me → ME.Reach (tellOwn r l me) := by
  unfold tellOwn
  induction l with
  | nil => intro me h; exact h
  | cons e rest ih => intro me h; exact ih _ (ME.Reach.stepRaw (.setAvail e (r e)) h)

theorem tellOwn_ids (r : String → Bool) (l : List String) : ∀ (me : ME.St),
    ∀ ep ∈ (tellOwn r l me).eps, ∃ y ∈ me.eps, ep.id = y.id := by
  unfold tellOwn
  induction l with
  | nil => intro me ep hep; exact ⟨ep, hep, rfl⟩
  | cons e rest ih =>
    intro me ep hep
    simp only [List.foldl_cons] at hep
    obtain ⟨y1, hy1, e1⟩ := ih _ ep hep
    obtain ⟨y, hy, e2⟩ := ME.opSetAvail_ids me e (r e) y1 hy1
    exact ⟨y, hy, e1.trans e2⟩

/-- an entry of valid options configures a reachable MultiEndpoint whose endpoints all come from the
    entry's (non-empty) list -/
theorem configure_spec {s : St} (h : G s) (dl : Int) {p : String × Option (List String)} {q : String × ME.St}
    (hne : (match p.2 with | some l => !l.isEmpty | none => false) = true) (hc : configure s dl p = some q) :
    ∃ l, p.2 = some l ∧ l ≠ [] ∧ q.1 = p.1 ∧ ME.Reach q.2 ∧ ∀ e ∈ q.2.eps, e.id ∈ l := by
  unfold configure at hc
  cases hq2 : p.2 with
  | none => rw [hq2] at hne; cases hne
  | some l =>
    rw [hq2] at hne hc
    have hlne : l ≠ [] := by simpa using hne
    simp only at hc
    cases hfm : findME s p.1 with
    | some me =>
      rw [hfm] at hc
      simp only [Option.some.injEq] at hc
      subst hc
      exact ⟨l, rfl, hlne, rfl, ME.api_step_reach (.setEndpoints l) (h.meReach _ (findME_mem hfm)),
        ME.api_setEndpoints_ids_sub me l hlne⟩
    | none =>
      rw [hfm] at hc
      cases hin : ME.init 0 dl l with
      | none => rw [hin] at hc; cases hc
      | some me =>
        rw [hin] at hc
        simp only [Option.map_some, Option.some.injEq] at hc
        subst hc
        exact ⟨l, rfl, hlne, rfl, ME.api_init_reach hin, ME.api_init_ids_sub hin⟩

/-- … and every entry of valid options does configure one -/
theorem configure_isSome (s : St) (dl : Int) {p : String × Option (List String)}
    (hne : (match p.2 with | some l => !l.isEmpty | none => false) = true) : (configure s dl p).isSome = true := by
  unfold configure
  cases hq2 : p.2 with
  | none => rw [hq2] at hne; cases hne
  | some l =>
    rw [hq2] at hne
    simp only
    cases hfm : findME s p.1 with
    | some me => rfl
    | none =>
      cases l with
      | nil => simp at hne
      | cons first rest =>
        simp only [Option.isSome_map]
        exact ME.api_init_isSome 0 dl first rest

/-- what the new table of an accepted update consists of -/
theorem new_mes_spec {s : St} (h : G s) (dl : Int) (o : Opts) (r : String → Bool)
    (hall : ∀ x ∈ o, (match x.2 with | some l => !l.isEmpty | none => false) = true) :
    ∀ p ∈ (o.filterMap fun p => (configure s dl p).map fun q => (q.1, tellOwn r (p.2.getD []) q.2)),
      ∃ l me0, (p.1, some l) ∈ o ∧ l ≠ [] ∧ ME.Reach me0 ∧ (∀ e ∈ me0.eps, e.id ∈ l) ∧ p.2 = tellOwn r l me0 := by
  intro p hp
  obtain ⟨x, hx, hxp⟩ := List.mem_filterMap.mp hp
  cases hc : configure s dl x with
  | none => rw [hc] at hxp; cases hxp
  | some q =>
    rw [hc] at hxp
    simp only [Option.map_some, Option.some.injEq] at hxp
    obtain ⟨l, hl, hlne, hq1, hreach, hsub⟩ := configure_spec h dl (hall x hx) hc
    subst hxp
    refine ⟨l, q.2, ?_, hlne, hreach, hsub, by simp [hl]⟩
    simp only [hq1, ← hl]
    exact hx

theorem g_update {s : St} (h : G s) (d : String) (o : Opts) (f : List String) (r : String → Bool) (dl : Int) :
    G (update s d o f r dl).1 := by
  unfold update
  by_cases hv : optsValid d o = true
  · simp only [hv, Bool.not_true, Bool.false_eq_true, ↓reduceIte]
    split
    · exact h
    · unfold optsValid at hv
      simp only [Bool.and_eq_true, List.any_eq_true, List.all_eq_true] at hv
      obtain ⟨⟨pd, hpd, hpdn⟩, hall⟩ := hv
      have hmes := new_mes_spec h dl o r hall
      constructor
      · intro p hp
        obtain ⟨l, me0, _, _, hr, _, hp2⟩ := hmes p hp
        rw [hp2]; exact tellOwn_reach r l me0 hr
      · intro _ p hp x hx
        obtain ⟨l, me0, hlo, _, _, hsub, hp2⟩ := hmes p hp
        rw [hp2] at hx
        obtain ⟨y, hy, hxy⟩ := tellOwn_ids r l me0 x hx
        have hxl : x.id ∈ l := hxy ▸ hsub y hy
        have hxv : x.id ∈ validEndpoints o := mem_validEndpoints hlo hxl
        -- a valid endpoint has a pool: it had one, or it was dialled now
        simp only [List.mem_filter, List.mem_append, List.contains_eq_mem, decide_eq_true_eq, Bool.not_eq_eq_eq_not, Bool.not_true, decide_eq_false_iff_not]
        refine ⟨?_, hxv⟩
        by_cases hin : x.id ∈ s.pools
        · exact Or.inl hin
        · exact Or.inr ⟨hxv, hin⟩
      · intro _
        -- the default name has options, hence an entry in the new table
        have hdn : pd.1 = d := by simpa using hpdn
        have hsome := configure_isSome s dl (hall pd hpd)
        cases hc : configure s dl pd with
        | none => rw [hc] at hsome; cases hsome
        | some q =>
          obtain ⟨l, _, _, hq1, _, _⟩ := configure_spec h dl (hall pd hpd) hc
          have hentry : (d, tellOwn r (pd.2.getD []) q.2) ∈
              (o.filterMap fun p => (configure s dl p).map fun q => (q.1, tellOwn r (p.2.getD []) q.2)) := by
            refine List.mem_filterMap.mpr ⟨pd, hpd, ?_⟩
            simp [hc, hq1, hdn]
          exact exists_findME (s := { s with mes := _, pools := _, dials := _, closed := _, defaultName := d, alive := true }) hentry
  · have : optsValid d o = false := by simpa using hv
    simp only [this, Bool.not_false, ↓reduceIte]
    exact h

theorem g_close {s : St} (h : G s) : G (close s) :=
  ⟨h.meReach, fun hal => by simp [close] at hal, fun hal => by simp [close] at hal⟩

theorem reach_g {s : St} (h : Reach s) : G s := by
  induction h with
  | init => exact ⟨fun p hp => by simp [init] at hp, fun hal => by simp [init] at hal, fun hal => by simp [init] at hal⟩
  | update d o f r dl _ ih => exact g_update ih d o f r dl
  | pstate e a _ ih => exact g_notify ih e a
  | close _ ih => exact g_close ih

/-- **C16** no accepted or rejected update, no pool notification, in any order, can make a later
    RPC panic or use a closed pool: while the object is constructed and not closed, every RPC —
    with a known name, an unknown name or none — is served by an open pool -/
theorem rpc_total {s : St} (h : Reach s) (hal : s.alive = true) (name : Option String) :
    ∃ e, rpc s name = some e ∧ e ∈ s.pools := by
  have g := reach_g h
  have hme : ∃ me, pickME s name = some me ∧ ∃ n, (n, me) ∈ s.mes := by
    unfold pickME
    cases hb : name.bind (findME s) with
    | some me =>
      cases name with
      | none => simp at hb
      | some n => exact ⟨me, rfl, n, findME_mem (by simpa using hb)⟩
    | none =>
      obtain ⟨me, hme⟩ := g.dflt hal
      exact ⟨me, by simp [hme], s.defaultName, findME_mem hme⟩
  obtain ⟨me, hp, n, hmem⟩ := hme
  obtain ⟨c, hc⟩ := (ME.reach_inv (g.meReach _ hmem)).curMem
  have hcm := ME.findEp_some hc
  have hin : me.current ∈ s.pools := by
    have := g.sub hal _ hmem c hcm.1
    rw [hcm.2] at this; exact this
  refine ⟨me.current, ?_, hin⟩
  unfold rpc
  rw [hp]
  simp [hin]

end GcpVerif.GME
