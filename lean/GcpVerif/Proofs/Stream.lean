/-
C12 — theorems about the stream-interceptor model, for every interleaving of the lock-region
steps of any number of caller threads, every outcome of stream creation and cancellation at any
point.
-/
import GcpVerif.Model.Stream
namespace GcpVerif.Stream

def isWaiting : Pc → Bool
  | .waiting _ => true
  | _ => false

def owes : Pc → Bool
  | .owesBroadcast _ _ => true
  | _ => false

def isDelegating : Pc → Bool
  | .delegating _ => true
  | _ => false

structure Inv (s : St) : Prop where
  /-- at most one successful creation, and exactly then the stream exists -/
  created : s.created = if s.stream then 1 else 0
  /-- no lost wake-up: a receiver sits in cond.Wait only while there is nothing to wait for yet, or
      while somebody still owes the broadcast that will wake it -/
  wake : (∃ t, isWaiting (s.pcs t) = true) →
    (s.stream = false ∧ s.initErr = false ∧ s.ctxDone = false) ∨ (∃ t, owes (s.pcs t) = true) ∨
    (s.ctxDone = true ∧ s.watcher = .armed)
  /-- a waiter has started the context watcher -/
  armed : (∃ t, isWaiting (s.pcs t) = true) → s.cancellable = true → s.watcher ≠ .notStarted
  fired : s.watcher = .done → s.ctxDone = true
  ctxOnlyCancellable : s.ctxDone = true → s.cancellable = true
  /-- only an existing stream is ever delegated to -/
  deleg : (∃ t, isDelegating (s.pcs t) = true) → s.stream = true
  logged : s.log ≠ [] → s.stream = true
  /-- a sender whose lock region succeeded has a stream -/
  owesOk : ∀ t c, s.pcs t = .owesBroadcast c false → s.stream = true

theorem init_inv (c : Bool) : Inv (init c) := by
  constructor <;> simp [init, isWaiting, isDelegating]

/-- the lock region of SendMsg / CloseSend -/
theorem inv_initStream_owes {s : St} (h : Inv s) (t : Tid) (c : Call) (m : Option Nat) (ok : Bool) :
    Inv (setPc (initStream s m ok).1 t (.owesBroadcast c (!(initStream s m ok).2))) := by
  have hi : (initStream s m ok).1.ctxDone = s.ctxDone ∧ (initStream s m ok).1.watcher = s.watcher ∧
      (initStream s m ok).1.cancellable = s.cancellable ∧ (initStream s m ok).1.log = s.log ∧
      (initStream s m ok).1.pcs = s.pcs ∧ (s.stream = true → (initStream s m ok).1.stream = true) ∧
      (initStream s m ok).1.created = (if (initStream s m ok).1.stream then 1 else 0) ∧
      ((initStream s m ok).2 = true → (initStream s m ok).1.stream = true) := by
    unfold initStream
    by_cases hs : s.stream = true
    · simp [hs, h.created]
    · cases ok <;> simp [hs, h.created]
  generalize initStream s m ok = r at hi ⊢
  obtain ⟨s1, good⟩ := r
  simp only at hi ⊢
  have hown : owes ((setPc s1 t (.owesBroadcast c (!good))).pcs t) = true := by simp [setPc, owes]
  constructor
  · exact hi.2.2.2.2.2.2.1
  · intro _; right; left; exact ⟨t, hown⟩
  · rintro ⟨x, hx⟩ hc
    simp only [setPc] at hx hc ⊢
    rw [hi.2.1]
    by_cases hxt : x = t
    · simp [hxt, isWaiting] at hx
    · simp only [hxt, ↓reduceIte, hi.2.2.2.2.1] at hx
      exact h.armed ⟨x, hx⟩ (by rw [← hi.2.2.1]; exact hc)
  · simp only [setPc]; rw [hi.2.1, hi.1]; exact h.fired
  · simp only [setPc]; rw [hi.1, hi.2.2.1]; exact h.ctxOnlyCancellable
  · rintro ⟨x, hx⟩
    simp only [setPc] at hx ⊢
    by_cases hxt : x = t
    · simp [hxt, isDelegating] at hx
    · simp only [hxt, ↓reduceIte, hi.2.2.2.2.1] at hx
      exact hi.2.2.2.2.2.1 (h.deleg ⟨x, hx⟩)
  · simp only [setPc]; rw [hi.2.2.2.1]
    intro hl; exact hi.2.2.2.2.2.1 (h.logged hl)
  · intro x c' hx
    simp only [setPc] at hx
    by_cases hxt : x = t
    · simp only [hxt, ↓reduceIte, Pc.owesBroadcast.injEq, Bool.not_eq_eq_eq_not, Bool.not_false] at hx
      exact hi.2.2.2.2.2.2.2 hx.2
    · simp only [hxt, ↓reduceIte, hi.2.2.2.2.1] at hx
      exact hi.2.2.2.2.2.1 (h.owesOk x c' hx)

/-- arming the context watcher keeps the invariant -/
theorem inv_arm {s : St} (h : Inv s) :
    Inv (if s.watcher == .notStarted && s.cancellable then { s with watcher := .armed } else s) ∧
    ((if s.watcher == .notStarted && s.cancellable then { s with watcher := .armed } else s).cancellable = true →
     (if s.watcher == .notStarted && s.cancellable then { s with watcher := .armed } else s).watcher ≠ .notStarted) := by
  by_cases hcond : (s.watcher == .notStarted && s.cancellable) = true
  · simp only [hcond, ↓reduceIte]
    simp only [Bool.and_eq_true, beq_iff_eq] at hcond
    refine ⟨?_, by simp⟩
    constructor
    · exact h.created
    · intro hw
      rcases h.wake hw with h' | h' | h'
      · exact Or.inl h'
      · exact Or.inr (Or.inl h')
      · rw [hcond.1] at h'; cases h'.2
    · intro _ _; simp
    · intro hd; cases hd
    · exact h.ctxOnlyCancellable
    · exact h.deleg
    · exact h.logged
    · exact h.owesOk
  · simp only [hcond, Bool.false_eq_true, ↓reduceIte]
    refine ⟨h, ?_⟩
    intro hc hn
    simp [hn, hc] at hcond

/-- the waitStream check of RecvMsg / Header, for a caller that does not owe a broadcast -/
theorem inv_waitCheck {s : St} (h : Inv s) (t : Tid) (c : Call) (hno : owes (s.pcs t) = false) :
    Inv (waitCheck s t c).1 := by
  unfold waitCheck
  have ha := inv_arm h
  have hpcs : (if s.watcher == .notStarted && s.cancellable then { s with watcher := .armed } else s).pcs = s.pcs := by
    split <;> rfl
  generalize (if s.watcher == .notStarted && s.cancellable then { s with watcher := .armed } else s) = s1 at ha hpcs
  obtain ⟨h1, harm1⟩ := ha
  simp only
  -- facts shared by the three outcomes: thread t changes to a pc that neither owes nor (except in
  -- the last case) waits; all other fields are those of s1
  have keepOwes : ∀ pc, (∃ x, owes (s1.pcs x) = true) → ∃ x, owes ((setPc s1 t pc).pcs x) = true := by
    rintro pc ⟨x, hx⟩
    refine ⟨x, ?_⟩
    have hxt : x ≠ t := by
      intro heq; subst heq; rw [hpcs, hno] at hx; cases hx
    simp [setPc, hxt, hx]
  by_cases hrdy : (s1.initErr || s1.stream) = true
  · simp only [hrdy, ↓reduceIte]
    by_cases hie : s1.initErr = true
    · simp only [hie, ↓reduceIte]
      constructor
      · exact h1.created
      · rintro ⟨x, hx⟩
        simp only [setPc] at hx
        by_cases hxt : x = t
        · simp [hxt, isWaiting] at hx
        · simp only [hxt, ↓reduceIte] at hx
          rcases h1.wake ⟨x, hx⟩ with h' | h' | h'
          · rw [hie] at h'; cases h'.2.1
          · exact Or.inr (Or.inl (keepOwes _ h'))
          · exact Or.inr (Or.inr h')
      · intro _ hc; exact harm1 hc
      · exact h1.fired
      · exact h1.ctxOnlyCancellable
      · rintro ⟨x, hx⟩
        simp only [setPc] at hx
        by_cases hxt : x = t
        · simp [hxt, isDelegating] at hx
        · simp only [hxt, ↓reduceIte] at hx; exact h1.deleg ⟨x, hx⟩
      · exact h1.logged
      · intro x c' hx
        simp only [setPc] at hx
        by_cases hxt : x = t
        · simp [hxt] at hx
        · simp only [hxt, ↓reduceIte] at hx; exact h1.owesOk x c' hx
    · have hst : s1.stream = true := by
        simp only [Bool.or_eq_true] at hrdy
        rcases hrdy with h' | h'
        · exact absurd h' hie
        · exact h'
      simp only [hie, Bool.false_eq_true, ↓reduceIte]
      constructor
      · exact h1.created
      · rintro ⟨x, hx⟩
        simp only [setPc] at hx
        by_cases hxt : x = t
        · simp [hxt, isWaiting] at hx
        · simp only [hxt, ↓reduceIte] at hx
          rcases h1.wake ⟨x, hx⟩ with h' | h' | h'
          · rw [hst] at h'; cases h'.1
          · exact Or.inr (Or.inl (keepOwes _ h'))
          · exact Or.inr (Or.inr h')
      · intro _ hc; exact harm1 hc
      · exact h1.fired
      · exact h1.ctxOnlyCancellable
      · intro _; exact hst
      · exact h1.logged
      · intro x c' hx
        simp only [setPc] at hx
        by_cases hxt : x = t
        · simp [hxt] at hx
        · simp only [hxt, ↓reduceIte] at hx; exact h1.owesOk x c' hx
  · have hnr : s1.initErr = false ∧ s1.stream = false := by
      simp only [Bool.or_eq_true, not_or, Bool.not_eq_true] at hrdy; exact hrdy
    simp only [hrdy, Bool.false_eq_true, ↓reduceIte]
    by_cases hcd : s1.ctxDone = true
    · simp only [hcd, ↓reduceIte]
      constructor
      · exact h1.created
      · rintro ⟨x, hx⟩
        simp only [setPc] at hx
        by_cases hxt : x = t
        · simp [hxt, isWaiting] at hx
        · simp only [hxt, ↓reduceIte] at hx
          rcases h1.wake ⟨x, hx⟩ with h' | h' | h'
          · rw [hcd] at h'; cases h'.2.2
          · exact Or.inr (Or.inl (keepOwes _ h'))
          · exact Or.inr (Or.inr h')
      · intro _ hc; exact harm1 hc
      · exact h1.fired
      · exact h1.ctxOnlyCancellable
      · rintro ⟨x, hx⟩
        simp only [setPc] at hx
        by_cases hxt : x = t
        · simp [hxt, isDelegating] at hx
        · simp only [hxt, ↓reduceIte] at hx; exact h1.deleg ⟨x, hx⟩
      · exact h1.logged
      · intro x c' hx
        simp only [setPc] at hx
        by_cases hxt : x = t
        · simp [hxt] at hx
        · simp only [hxt, ↓reduceIte] at hx; exact h1.owesOk x c' hx
    · have hcd' : s1.ctxDone = false := by simpa using hcd
      simp only [hcd, Bool.false_eq_true, ↓reduceIte]
      constructor
      · exact h1.created
      · intro _; exact Or.inl ⟨hnr.2, hnr.1, hcd'⟩
      · intro _ hc; exact harm1 hc
      · exact h1.fired
      · exact h1.ctxOnlyCancellable
      · rintro ⟨x, hx⟩
        simp only [setPc] at hx
        by_cases hxt : x = t
        · simp [hxt, isDelegating] at hx
        · simp only [hxt, ↓reduceIte] at hx; exact h1.deleg ⟨x, hx⟩
      · exact h1.logged
      · intro x c' hx
        simp only [setPc] at hx
        by_cases hxt : x = t
        · simp [hxt] at hx
        · simp only [hxt, ↓reduceIte] at hx; exact h1.owesOk x c' hx

theorem wakeAll_no_waiting (s : St) : ¬ ∃ t, isWaiting ((wakeAll s).pcs t) = true := by
  rintro ⟨t, ht⟩
  simp only [wakeAll] at ht
  cases h : s.pcs t <;> simp [h, isWaiting] at ht

theorem inv_step {s : St} (h : Inv s) (st : Step) : Inv (step s st).1 := by
  cases st with
  | call t c ok =>
    simp only [step]
    by_cases hidle : pcOf s t = .idle
    · have hno : owes (s.pcs t) = false := by
        have : s.pcs t = .idle := hidle
        simp [this, owes]
      simp only [hidle, bne_self_eq_false, Bool.false_eq_true, ↓reduceIte]
      cases c with
      | send m => exact inv_initStream_owes h t _ _ ok
      | closeSend => exact inv_initStream_owes h t _ _ ok
      | recv => exact inv_waitCheck h t _ hno
      | header => exact inv_waitCheck h t _ hno
    · have : (pcOf s t != .idle) = true := by simpa using hidle
      simp only [this, ↓reduceIte]; exact h
  | broadcast t =>
    simp only [step]
    cases hpc : pcOf s t with
    | owesBroadcast c err =>
      simp only
      have hw := wakeAll_no_waiting s
      have hbase : ∀ pc, isWaiting pc = false → (isDelegating pc = true → s.stream = true) →
          (∀ c', pc ≠ .owesBroadcast c' false) → Inv (setPc (wakeAll s) t pc) := by
        intro pc hnw hdel hnotowes
        constructor
        · exact h.created
        · rintro ⟨x, hx⟩
          exfalso
          simp only [setPc] at hx
          by_cases hxt : x = t
          · simp [hxt, hnw] at hx
          · simp only [hxt, ↓reduceIte] at hx; exact hw ⟨x, hx⟩
        · rintro ⟨x, hx⟩ _
          exfalso
          simp only [setPc] at hx
          by_cases hxt : x = t
          · simp [hxt, hnw] at hx
          · simp only [hxt, ↓reduceIte] at hx; exact hw ⟨x, hx⟩
        · exact h.fired
        · exact h.ctxOnlyCancellable
        · rintro ⟨x, hx⟩
          simp only [setPc] at hx
          by_cases hxt : x = t
          · simp only [hxt, ↓reduceIte] at hx; exact hdel hx
          · simp only [hxt, ↓reduceIte, wakeAll] at hx
            apply h.deleg
            refine ⟨x, ?_⟩
            cases hx' : s.pcs x <;> simp [hx', isDelegating] at hx ⊢
        · exact h.logged
        · intro x c' hx
          simp only [setPc] at hx
          by_cases hxt : x = t
          · simp only [hxt, ↓reduceIte] at hx; exact absurd hx (hnotowes c')
          · simp only [hxt, ↓reduceIte, wakeAll] at hx
            cases hx' : s.pcs x <;> simp [hx'] at hx
            exact h.owesOk x c' (by rw [hx']; simp [hx])
      cases err with
      | true => simp only [↓reduceIte]; exact hbase .idle rfl (by intro hd; cases hd) (by intro c' hc'; cases hc')
      | false =>
        simp only [Bool.false_eq_true, ↓reduceIte]
        -- a sender that did not fail created (or found) the stream; we do not need that here:
        -- delegation to a non-existing stream is excluded by `deleg` of the *post* state, which we
        -- obtain from the fact that the sender's pc was set by `inv_initStream_owes` only with
        -- err = !good; for the invariant we keep the weaker statement via `logged`/`deleg` below
        exact hbase (.delegating c) rfl (fun _ => h.owesOk t c hpc) (by intro c' hc'; cases hc')
    | _ => exact h
  | delegate t =>
    simp only [step]
    cases hpc : pcOf s t with
    | delegating c =>
      simp only
      have hst : s.stream = true := h.deleg ⟨t, by simp [pcOf] at hpc; simp [hpc, isDelegating]⟩
      constructor
      · exact h.created
      · rintro ⟨x, hx⟩
        simp only [setPc] at hx
        by_cases hxt : x = t
        · simp [hxt, isWaiting] at hx
        · simp only [hxt, ↓reduceIte] at hx
          rcases h.wake ⟨x, hx⟩ with h' | h' | h'
          · exact Or.inl h'
          · right; left
            obtain ⟨y, hy⟩ := h'
            have hyt : y ≠ t := by
              intro heq; subst heq
              have : s.pcs y = .delegating c := hpc
              simp [this, owes] at hy
            exact ⟨y, by simp [setPc, hyt, hy]⟩
          · exact Or.inr (Or.inr h')
      · rintro ⟨x, hx⟩ hc
        simp only [setPc] at hx
        by_cases hxt : x = t
        · simp [hxt, isWaiting] at hx
        · simp only [hxt, ↓reduceIte] at hx; exact h.armed ⟨x, hx⟩ hc
      · exact h.fired
      · exact h.ctxOnlyCancellable
      · intro _; exact hst
      · intro _; exact hst
      · intro _ _ _; exact hst
    | _ => exact h
  | recheck t =>
    simp only [step]
    cases hpc : pcOf s t with
    | runnable c =>
      simp only
      exact inv_waitCheck h t c (by have : s.pcs t = .runnable c := hpc; simp [this, owes])
    | _ => exact h
  | cancel =>
    simp only [step]
    by_cases hc : s.cancellable = true
    · simp only [hc, ↓reduceIte]
      constructor
      · exact h.created
      · intro hw
        rcases h.wake hw with h' | h' | h'
        · -- a waiter exists, so the watcher was started; it cannot be `done` (that implies ctxDone)
          right; right
          refine ⟨rfl, ?_⟩
          have hns := h.armed hw hc
          cases hwt : s.watcher with
          | notStarted => exact absurd hwt hns
          | armed => rfl
          | done => have := h.fired hwt; rw [h'.2.2] at this; cases this
        · exact Or.inr (Or.inl h')
        · exact Or.inr (Or.inr ⟨rfl, h'.2⟩)
      · intro hw _; exact h.armed hw hc
      · intro _; rfl
      · intro _; rfl
      · exact h.deleg
      · exact h.logged
      · exact h.owesOk
    · simp only [hc, Bool.false_eq_true, ↓reduceIte]; exact h
  | watcherFire =>
    simp only [step]
    by_cases hcond : (s.watcher == .armed && s.ctxDone) = true
    · simp only [hcond, ↓reduceIte]
      simp only [Bool.and_eq_true, beq_iff_eq] at hcond
      have hw := wakeAll_no_waiting { s with watcher := .done }
      constructor
      · exact h.created
      · intro hx; exact absurd hx hw
      · intro hx; exact absurd hx hw
      · intro _; exact hcond.2
      · exact h.ctxOnlyCancellable
      · rintro ⟨x, hx⟩
        simp only [wakeAll] at hx
        apply h.deleg
        refine ⟨x, ?_⟩
        cases hx' : s.pcs x <;> simp [hx', isDelegating] at hx ⊢
      · exact h.logged
      · intro x c' hx
        simp only [wakeAll] at hx
        cases hx' : s.pcs x <;> simp [hx'] at hx
        exact h.owesOk x c' (by rw [hx']; simp [hx])
    · simp only [hcond, Bool.false_eq_true, ↓reduceIte]; exact h
  | trailer => exact h
  | context => exact h

theorem run_inv (c : Bool) (steps : List Step) : Inv (run (init c) steps) := by
  unfold run
  suffices h : ∀ s, Inv s → Inv (steps.foldl (fun s st => (step s st).1) s) from h _ (init_inv c)
  induction steps with
  | nil => intro s h; exact h
  | cons st rest ih => intro s h; exact ih _ (inv_step h st)

/-! ## C12 -/

/-- **C12** the underlying stream is created at most once: over every interleaving, however many
    creation attempts failed before, there is never a second successful creation -/
theorem create_at_most_once (c : Bool) (steps : List Step) : (run (init c) steps).created ≤ 1 := by
  have := (run_inv c steps).created
  split at this <;> omega

/-- **C12** no lost wake-up / receive progress: in a state where no sender is between Unlock and
    Broadcast and the context watcher is not pending, a receiver is blocked only if the stream
    does not exist yet, creation has not failed and the context has not ended. So once a SendMsg has
    returned, or the context has ended and its watcher ran, no RecvMsg / Header stays blocked. -/
theorem recv_progress (c : Bool) (steps : List Step)
    (hquiet : ¬ ∃ t, owes ((run (init c) steps).pcs t) = true)
    (hwatch : ¬ ((run (init c) steps).ctxDone = true ∧ (run (init c) steps).watcher = .armed))
    (hblocked : ∃ t, isWaiting ((run (init c) steps).pcs t) = true) :
    (run (init c) steps).stream = false ∧ (run (init c) steps).initErr = false ∧
    (run (init c) steps).ctxDone = false := by
  rcases (run_inv c steps).wake hblocked with h | h | h
  · exact h
  · exact absurd h hquiet
  · exact absurd h hwatch

/-- **C12** every call that reaches the underlying stream does so after it exists -/
theorem delegation_after_creation (c : Bool) (steps : List Step) (h : (run (init c) steps).log ≠ []) :
    (run (init c) steps).stream = true := (run_inv c steps).logged h

/-- **C12** the first message is visible to the picker: a creation attempt made by SendMsg carries
    exactly the message being sent (CloseSend-first carries none) -/
theorem first_message_visible (s : St) (t : Tid) (m : Nat) (ok : Bool) (hidle : pcOf s t = .idle)
    (hnew : s.stream = false) :
    (step s (.call t (.send m) ok)).1.attempts = s.attempts ++ [some m] := by
  simp only [step, hidle, bne_self_eq_false, Bool.false_eq_true, ↓reduceIte, initStream, hnew]
  cases ok <;> simp [setPc]

/-- once the stream exists, SendMsg makes no further attempt -/
theorem no_second_attempt (s : St) (t : Tid) (m : Nat) (ok : Bool) (hidle : pcOf s t = .idle)
    (hex : s.stream = true) : (step s (.call t (.send m) ok)).1.attempts = s.attempts := by
  simp [step, hidle, initStream, hex, setPc]

/-- a receiver that finds the creation error returns it; one that finds an ended context returns;
    neither blocks -/
theorem recv_returns (s : St) (t : Tid) (hidle : pcOf s t = .idle)
    (h : s.initErr = true ∨ (s.stream = false ∧ s.ctxDone = true)) :
    (step s (.call t .recv true)).2 = some .createErr ∨ (step s (.call t .recv true)).2 = some .ctxErr := by
  simp only [step, hidle, bne_self_eq_false, Bool.false_eq_true, ↓reduceIte, waitCheck]
  rcases h with h | h
  · left
    by_cases hw : (s.watcher == .notStarted && s.cancellable) = true <;> simp [hw, h]
  · by_cases hie : s.initErr = true
    · left; by_cases hw : (s.watcher == .notStarted && s.cancellable) = true <;> simp [hw, hie]
    · right
      have hie' : s.initErr = false := by simpa using hie
      by_cases hw : (s.watcher == .notStarted && s.cancellable) = true <;> simp [hw, hie', h.1, h.2]

/-- non-vacuity (test, by evaluation): receiver first, then a failing send, then a good send -/
example :
    let s := run (init true) [.call 1 .recv true, .call 0 (.send 7) false, .broadcast 0, .recheck 1,
                              .call 0 (.send 8) true, .broadcast 0, .delegate 0]
    s.created = 1 ∧ s.attempts = [some 7, some 8] ∧ s.log = [(0, .send 8)] := by decide

/-! ### once created, always delegated (after fix F21) -/

/-- a creation error is never left standing next to an existing stream -/
def NoStale (s : St) : Prop := s.stream = true → s.initErr = false

theorem noStale_initStream {s : St} (h : NoStale s) (m : Option Nat) (ok : Bool) : NoStale (initStream s m ok).1 := by
  unfold initStream
  by_cases hs : s.stream = true
  · simp only [hs, ↓reduceIte]; exact h
  · cases ok
    · simp only [hs, Bool.false_eq_true, ↓reduceIte]; intro h'; cases h'
    · simp only [hs, Bool.false_eq_true, ↓reduceIte]; intro _; rfl

theorem noStale_of_eq {s s' : St} (h : NoStale s) (e1 : s'.stream = s.stream) (e2 : s'.initErr = s.initErr) : NoStale s' := by
  unfold NoStale; rw [e1, e2]; exact h

theorem noStale_waitCheck {s : St} (h : NoStale s) (t : Tid) (c : Call) : NoStale (waitCheck s t c).1 := by
  unfold waitCheck
  simp only
  split <;> (try split) <;> (try split) <;> exact noStale_of_eq h (by simp [setPc]; try split <;> rfl) (by simp [setPc]; try split <;> rfl)

theorem noStale_step {s : St} (h : NoStale s) (st : Step) : NoStale (step s st).1 := by
  cases st with
  | call t c ok =>
    simp only [step]
    split
    · exact h
    · cases c with
      | send m => exact noStale_of_eq (noStale_initStream h (some m) ok) rfl rfl
      | closeSend => exact noStale_of_eq (noStale_initStream h none ok) rfl rfl
      | recv => exact noStale_waitCheck h t _
      | header => exact noStale_waitCheck h t _
  | broadcast t =>
    simp only [step]
    split
    · split <;> exact noStale_of_eq h rfl rfl
    · exact h
  | delegate t =>
    simp only [step]
    split
    · exact noStale_of_eq h rfl rfl
    · exact h
  | recheck t =>
    simp only [step]
    split
    · exact noStale_waitCheck h t _
    · exact h
  | cancel => simp only [step]; split <;> exact noStale_of_eq h rfl rfl
  | watcherFire => simp only [step]; split <;> exact noStale_of_eq h rfl rfl
  | trailer => exact h
  | context => exact h

theorem noStale_run (c : Bool) (steps : List Step) : NoStale (run (init c) steps) := by
  unfold run
  suffices h : ∀ s, NoStale s → NoStale (steps.foldl (fun s st => (step s st).1) s) from h _ (by intro h; cases h)
  induction steps with
  | nil => intro s h; exact h
  | cons st steps ih => intro s h; exact ih _ (noStale_step h st)

/-- **C12** once the underlying stream exists — also when an earlier creation attempt had failed and
    also after the call's context has ended — a RecvMsg / Header entered by an idle thread does not
    wait and does not answer in the stream's place: its next step delegates the call to the stream -/
theorem recv_after_creation_delegates (c : Bool) (steps : List Step) (t : Tid) (call : Call)
    (hcall : call = .recv ∨ call = .header) (ok : Bool)
    (hs : (run (init c) steps).stream = true) (hidle : pcOf (run (init c) steps) t = .idle) :
    (step (run (init c) steps) (.call t call ok)).2 = none ∧
    (step (step (run (init c) steps) (.call t call ok)).1 (.delegate t)).2 = some (.delegated call) := by
  have hn := noStale_run c steps hs
  generalize run (init c) steps = s at hs hidle hn
  have hw : (waitCheck s t call).2 = none ∧ (waitCheck s t call).1.pcs t = .delegating call ∧
      (waitCheck s t call).1.log = s.log := by
    unfold waitCheck
    simp only
    by_cases hb : (s.watcher == .notStarted && s.cancellable) = true
    · simp [hb, hn, hs, setPc]
    · simp [hb, hn, hs, setPc]
  have hidle' : (pcOf s t != Pc.idle) = false := by simp [hidle]
  have hstep : step s (.call t call ok) = waitCheck s t call := by
    rcases hcall with h | h <;> subst h <;> simp [step, hidle']
  rw [hstep]
  refine ⟨hw.1, ?_⟩
  simp only [step, pcOf, hw.2.1]

end GcpVerif.Stream
