/-
C11 — theorems about the key-extraction model.
-/
import GcpVerif.Model.KeyPath
namespace GcpVerif.KeyPath

/-- the loop of the Go code computes `mapM` + concatenation, with early exit on the first error -/
theorem loopKeys_spec (f : V → List String × Bool) (g : V → Option (List String))
    (hfg : ∀ x, ((f x).2 = true → g x = some (f x).1) ∧ ((f x).2 = false → g x = none))
    (xs : List V) (acc : List String) :
    ((loopKeys f xs acc).2 = true →
        ∃ ks, xs.mapM g = some ks ∧ (loopKeys f xs acc).1 = acc ++ ks.flatten) ∧
    ((loopKeys f xs acc).2 = false → xs.mapM g = none) := by
  induction xs generalizing acc with
  | nil => simp [loopKeys]
  | cons x xs ih =>
    rw [loopKeys]
    have hx := hfg x
    cases hfx : f x with
    | mk kk ok =>
      rw [hfx] at hx
      cases ok with
      | true =>
        simp only at ⊢
        have hg := hx.1 rfl
        have := ih (acc ++ kk)
        constructor
        · intro h
          obtain ⟨ks, hks, heq⟩ := this.1 h
          refine ⟨kk :: ks, ?_, ?_⟩
          · simp [List.mapM_cons, hg, hks]
          · simp [heq]
        · intro h
          simp [List.mapM_cons, hg, this.2 h]
      | false =>
        simp only at ⊢
        have hg := hx.2 rfl
        simp [List.mapM_cons, hg]

/-- C11 (main): the accumulator / early-return implementation equals the declarative reading of
    the path — same keys in the same order on success, and an error exactly when the declarative
    reading has none -/
theorem keys_eq_follow (p : List String) (v : V) :
    ((keysFromMessage v p).2 = true → follow p v = some (keysFromMessage v p).1) ∧
    ((keysFromMessage v p).2 = false → follow p v = none) := by
  induction p generalizing v with
  | nil =>
    simp only [keysFromMessage, follow]
    cases deref v <;> simp
  | cons seg rest ih =>
    simp only [keysFromMessage, follow]
    cases hd : deref v with
    | struct fs =>
      simp only
      cases hl : lookupField fs (title seg) with
      | notFound =>
        simp only
        have := ih .invalid
        -- an invalid value is never a string nor a struct: always an error
        have hinv : (keysFromMessage V.invalid rest).2 = false := by
          cases rest <;> simp [keysFromMessage, deref]
        simp [hinv]
      | nilEmb => simp
      | found f =>
        cases f with
        | slice xs =>
          simp only
          have := loopKeys_spec (fun x => keysFromMessage x rest) (follow rest) (fun x => ih x) xs []
          constructor
          · intro h
            obtain ⟨ks, hks, heq⟩ := this.1 h
            simp [hks, heq]
          · intro h
            simp [this.2 h]
        | _ => exact ih _
    | _ => simp

/-- `getAffinityKeysFromMessage` returns exactly the keys reached by following the dotted path -/
theorem getAffinityKeys_eq_follow (locator : String) (msg : V) :
    getAffinityKeys locator msg = follow (splitDots locator) msg := by
  unfold getAffinityKeys
  have := keys_eq_follow (splitDots locator) msg
  cases h : keysFromMessage msg (splitDots locator) with
  | mk ks ok =>
    rw [h] at this
    cases ok with
    | true => simp [this.1 rfl]
    | false => simp [this.2 rfl]

/-! ### corollaries named in the property -/

/-- a nil message (nil interface, nil pointer) is an error, for every path -/
theorem nil_is_error (p : List String) : follow p .nilPtr = none ∧ follow p .nilIface = none ∧ follow p .invalid = none := by
  cases p <;> simp [follow, deref]

/-- a nil nested message is an error -/
theorem nil_nested_is_error (fs : List (String × Option V)) (seg : String) (rest : List String)
    (h : lookupField fs (title seg) = .found .nilPtr) : follow (seg :: rest) (.struct fs) = none := by
  simp [follow, deref, h, (nil_is_error rest).1]

/-- an empty repeated field contributes no keys (and is not an error) -/
theorem empty_slice_no_keys (fs : List (String × Option V)) (seg : String) (rest : List String)
    (h : lookupField fs (title seg) = .found (.slice [])) : follow (seg :: rest) (.struct fs) = some [] := by
  simp [follow, deref, h]

/-- a path that names a missing field is an error -/
theorem missing_field_error (fs : List (String × Option V)) (seg : String) (rest : List String)
    (h : lookupField fs (title seg) = .notFound) : follow (seg :: rest) (.struct fs) = none := by
  simp [follow, deref, h]

/-- a path that crosses a value that is not a message is an error -/
theorem non_struct_error (seg : String) (rest : List String) (v : V)
    (h : ∀ fs, deref v ≠ .struct fs) : follow (seg :: rest) v = none := by
  simp only [follow]

/-- a path that ends on a non-string value is an error -/
theorem non_string_leaf_error (v : V) (h : ∀ s, deref v ≠ .str s) : follow [] v = none := by
  simp only [follow]

/-- a string leaf is returned as it is -/
theorem string_leaf (s : String) : follow [] (.str s) = some [s] ∧ follow [] (.ptr (.str s)) = some [s] := by
  simp [follow, deref]

/-- keys of a repeated field come out in element order -/
theorem slice_in_order (fs : List (String × Option V)) (seg : String) (a b : String)
    (h : lookupField fs (title seg) = .found (.slice [.str a, .str b])) :
    follow [seg] (.struct fs) = some [a, b] := by
  simp [follow, deref, h]

/-- `strings.Split` never yields an empty path: the "empty locator" branch of the Go code is dead -/
theorem splitChars_nonempty (sep : Char) (l : List Char) : splitChars sep l ≠ [] := by
  cases l with
  | nil => simp [splitChars]
  | cons c cs =>
    simp only [splitChars]
    split
    · simp
    · split <;> simp

theorem split_nonempty (locator : String) : splitDots locator ≠ [] := by
  simp [splitDots, splitChars_nonempty]

/-! ### non-vacuity: a nested message with a repeated field (test, by evaluation) -/
example :
    keysFromMessage (.ptr (.struct [("A", some (.slice [.ptr (.struct [("B", some (.str "x"))]),
                                                               .ptr (.struct [("B", some (.str "y"))])]))])) ["a", "b"] = (["x", "y"], true) := by
  decide

end GcpVerif.KeyPath
