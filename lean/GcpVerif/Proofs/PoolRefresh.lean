/-
C07 at Reach level: a slot is marked as refreshing exactly while one replacement connection for
it exists; a second refresh of the slot cannot start before the swap; the swap hands the slot —
with its stream count, its key count and its position — to the replacement.
-/
import GcpVerif.Proofs.PoolKeys
namespace GcpVerif.Pool

def flagAt (s : St) (slot : Slot) : Option Bool := (s.refs[slot]?).map (·.refreshing)

structure Refr (s : St) : Prop where
  rmSlot : ∀ sc slot, lookup s.refreshingMap sc = some slot → flagAt s slot = some true
  rmInj : ∀ sc sc' slot, lookup s.refreshingMap sc = some slot → lookup s.refreshingMap sc' = some slot → sc = sc'
  flagRm : ∀ slot, flagAt s slot = some true → ∃ sc, lookup s.refreshingMap sc = some slot

def SameR (s s' : St) : Prop :=
  s'.refreshingMap = s.refreshingMap ∧ s'.refs.length = s.refs.length ∧ ∀ slot, flagAt s' slot = flagAt s slot

theorem SameR.refl (s : St) : SameR s s := ⟨rfl, rfl, fun _ => rfl⟩
theorem SameR.trans {a b c : St} (h1 : SameR a b) (h2 : SameR b c) : SameR a c :=
  ⟨h2.1.trans h1.1, h2.2.1.trans h1.2.1, fun slot => (h2.2.2 slot).trans (h1.2.2 slot)⟩

theorem refr_of_same {s s' : St} (h : Refr s) (e : SameR s s') : Refr s' := by
  obtain ⟨e1, _, e3⟩ := e
  constructor
  · intro sc slot hl; rw [e1] at hl; rw [e3]; exact h.rmSlot sc slot hl
  · intro sc sc' slot h1 h2; rw [e1] at h1 h2; exact h.rmInj sc sc' slot h1 h2
  · intro slot hf; rw [e3] at hf; rw [e1]; exact h.flagRm slot hf

theorem flagAt_modRef (s : St) (i : Slot) (f : RefSt → RefSt) (hf : ∀ r, (f r).refreshing = r.refreshing) (j : Slot) :
    flagAt (modRef s i f) j = flagAt s j := by
  unfold flagAt modRef
  simp only [List.getElem?_modify]
  cases s.refs[j]? with
  | none => rfl
  | some r =>
    by_cases hij : i = j
    · simp [hij, hf r]
    · simp [hij]

theorem sameR_modRef (s : St) (i : Slot) (f : RefSt → RefSt) (hf : ∀ r, (f r).refreshing = r.refreshing) :
    SameR s (modRef s i f) := ⟨rfl, modRef_len s i f, flagAt_modRef s i f hf⟩

theorem sameR_ccNew (s : St) : SameR s (ccNewSubConn s).1 := by
  unfold ccNewSubConn; split
  · exact SameR.refl s
  · split <;> exact ⟨rfl, rfl, fun _ => rfl⟩

theorem sameR_updateAll (s : St) (scs : List Sc) : SameR s (updateAll s scs).1 := by
  unfold updateAll
  suffices h : ∀ (acc : St × List Event), SameR s acc.1 →
      SameR s (scs.foldl (fun (acc : St × List Event) sc =>
        ({ acc.1 with scAddrs := insert acc.1.scAddrs sc acc.1.addrs }, acc.2 ++ [.upd sc acc.1.addrs, .connect sc])) acc).1 from
    h (s, []) (SameR.refl s)
  induction scs with
  | nil => intro acc h; exact h
  | cons x xs ih => intro acc h; simp only [List.foldl_cons]; exact ih _ (h.trans ⟨rfl, rfl, fun _ => rfl⟩)

theorem sameR_place (s : St) (call : Nat) (slot : Slot) (cmd : Cmd) (loc : Loc) (key : String) (ctx : CtxKind)
    (dl : Option Int) : SameR s (place s call slot cmd loc key ctx dl).1 := by
  unfold place
  cases getRef s slot with
  | none => exact SameR.refl s
  | some r =>
    exact (sameR_modRef s slot (fun r => { r with streamsCnt := r.streamsCnt + 1 }) (fun _ => rfl)).trans
      ⟨rfl, rfl, fun _ => rfl⟩

theorem sameR_getReady (s : St) (c : Cfg) (key : String) : SameR s (getReadySubConnRef s c key).1 := by
  unfold getReadySubConnRef
  repeat' split
  all_goals exact ⟨rfl, rfl, fun _ => rfl⟩

theorem sameR_finishPick (s : St) (r : Option Slot) (ev : List Event) (call : Nat) (cmd : Cmd) (loc : Loc)
    (key : String) (ctx : CtxKind) (dl : Option Int) : SameR s (finishPick s r ev call cmd loc key ctx dl).1 := by
  unfold finishPick
  cases r with
  | none => exact SameR.refl s
  | some slot =>
    simp only
    have := sameR_place s call slot cmd loc key ctx dl
    generalize place s call slot cmd loc key ctx dl = p at this ⊢
    obtain ⟨s1, o⟩ := p
    cases o <;> exact this

theorem sameR_bump (s : St) (sc : Sc) (d : Int) : SameR s (bumpAffinity s sc d) := by
  unfold bumpAffinity; split
  · exact sameR_modRef _ _ _ (fun _ => rfl)
  · exact SameR.refl s

theorem sameR_bind (s : St) (k : String) (sc : Sc) : SameR s (bindSubConn s k sc) := by
  unfold bindSubConn
  refine SameR.trans ?_ (sameR_bump _ sc 1)
  unfold addBinding; split <;> exact ⟨rfl, rfl, fun _ => rfl⟩

theorem sameR_foldl_bind (keys : List String) (sc : Sc) (s : St) :
    SameR s (keys.foldl (fun s k => bindSubConn s k sc) s) := by
  induction keys generalizing s with
  | nil => exact SameR.refl s
  | cons k ks ih => exact (sameR_bind s k sc).trans (ih _)

theorem sameR_applyBindings (s : St) (call : Call) (reply : Msg) : SameR s (applyBindings s call reply) := by
  unfold applyBindings
  cases call.cmd with
  | bound => exact SameR.refl s
  | unbind =>
    simp only
    unfold unbindSubConn
    cases lookup s.affinity call.boundKey with
    | none => exact SameR.refl s
    | some sc => exact (sameR_bump s sc (-1)).trans ⟨rfl, rfl, fun _ => rfl⟩
  | bind =>
    simp only
    split
    · exact SameR.refl s
    · split
      · exact SameR.refl s
      · split
        · exact SameR.refl s
        · exact sameR_foldl_bind _ _ s

theorem sameR_opCtxDone (s : St) (callId : Nat) : SameR s (opCtxDone s callId).1 := by
  unfold opCtxDone
  cases s.waiters.find? (fun w => w.id == callId) with
  | none => exact SameR.refl s
  | some w =>
    simp only
    have hp := (show SameR s { s with waiters := s.waiters.filter fun x => x.id != callId } from ⟨rfl, rfl, fun _ => rfl⟩).trans
      (sameR_place _ w.id w.slot .bind w.loc "" w.ctx w.dl)
    unfold placeWaiter
    generalize place { s with waiters := s.waiters.filter fun x => x.id != callId } w.id w.slot .bind w.loc "" w.ctx w.dl = r at hp ⊢
    obtain ⟨s1, o⟩ := r
    cases o <;> exact hp

theorem sameR_wake (s : St) : SameR s (wakeWaiters s).1 := by
  unfold wakeWaiters
  suffices hs : ∀ (ws : List Waiter) (acc : St × List Event), SameR s acc.1 →
      SameR s (ws.foldl (fun (acc : St × List Event) w =>
        if slotReady acc.1 w.slot then
          match placeWaiter { acc.1 with waiters := acc.1.waiters.filter fun x => x.id != w.id } w with
          | (s, some sc) => (s, acc.2 ++ [.woke w.id sc])
          | (_, none) => acc
        else acc) acc).1 from hs s.waiters (s, []) (SameR.refl s)
  intro ws
  induction ws with
  | nil => intro acc h; exact h
  | cons w ws ih =>
    intro acc hacc
    simp only [List.foldl_cons]
    apply ih
    split
    · have hp := (hacc.trans (show SameR acc.1 { acc.1 with waiters := acc.1.waiters.filter fun x => x.id != w.id } from ⟨rfl, rfl, fun _ => rfl⟩)).trans
        (sameR_place _ w.id w.slot .bind w.loc "" w.ctx w.dl)
      unfold placeWaiter
      generalize place { acc.1 with waiters := acc.1.waiters.filter fun x => x.id != w.id } w.id w.slot .bind w.loc "" w.ctx w.dl = r at hp ⊢
      obtain ⟨s1, o⟩ := r
      cases o with
      | none => exact hacc
      | some sc => exact hp
    · exact hacc


theorem sameR_recordState (s : St) (sc : Sc) (st : CState) : SameR s (recordState s sc st).1 := by
  unfold recordState
  cases st <;> exact ⟨rfl, rfl, fun _ => rfl⟩

theorem sameR_cleanFallback (s : St) (sc : Sc) (a b : CState) : SameR s (cleanFallback s sc a b) := by
  unfold cleanFallback
  simp only
  split <;> split <;> exact ⟨rfl, rfl, fun _ => rfl⟩

theorem sameR_recordTransition (s : St) (a b : CState) : SameR s (recordTransition s a b) := by
  unfold recordTransition updCounter
  cases a <;> cases b <;> exact ⟨rfl, rfl, fun _ => rfl⟩

theorem sameR_maybePublish (s : St) (a b c : CState) (o : List Slot) : SameR s (maybePublish s a b c o).1 := by
  unfold maybePublish
  split
  · unfold regeneratePicker
    split <;> exact ⟨rfl, rfl, fun _ => rfl⟩
  · exact SameR.refl s

/-! ### creating connections -/

theorem refr_append {s1 s2 : St} (h1 : Refr s1) (hrm : s2.refreshingMap = s1.refreshingMap) (ref : RefSt)
    (hr : ref.refreshing = false) (hrefs : s2.refs = s1.refs ++ [ref]) : Refr s2 := by
  have hflag : ∀ j, flagAt s2 j = some true ↔ flagAt s1 j = some true := by
    intro j
    simp only [flagAt, hrefs]
    by_cases hlt : j < s1.refs.length
    · rw [List.getElem?_append_left hlt]
    · have hge : s1.refs.length ≤ j := Nat.le_of_not_lt hlt
      rw [List.getElem?_append_right hge, List.getElem?_eq_none hge]
      cases hd : j - s1.refs.length with
      | zero => simp [hr]
      | succ n => simp
  constructor
  · intro x slot hl; rw [hrm] at hl; exact (hflag slot).mpr (h1.rmSlot x slot hl)
  · intro x x' slot ha hb; rw [hrm] at ha hb; exact h1.rmInj x x' slot ha hb
  · intro slot hf; rw [hrm]; exact h1.flagRm slot ((hflag slot).mp hf)

theorem refr_addSubConn {s : St} (h : Refr s) : Refr (addSubConn s).1 := by
  unfold addSubConn
  have hc := sameR_ccNew s
  generalize ccNewSubConn s = r at hc ⊢
  obtain ⟨s1, o, ev⟩ := r
  have h1 := refr_of_same h hc
  cases o with
  | none => exact h1
  | some sc => exact refr_append h1 rfl _ rfl rfl

theorem refr_newSubConn {s : St} (h : Refr s) : Refr (newSubConn s).1 := by
  unfold newSubConn; split
  · exact h
  · exact refr_addSubConn h

theorem refr_enforce {s : St} (h : Refr s) (min fuel : Nat) : Refr (enforceMinSize s min fuel).1 := by
  induction fuel generalizing s with
  | zero => exact h
  | succ fuel ih =>
    unfold enforceMinSize
    split
    · have ha := refr_addSubConn h
      generalize addSubConn s = r at ha ⊢
      obtain ⟨s1, ok, ev⟩ := r
      cases ok with
      | true => simp only; exact ih ha
      | false => exact ha
    · exact h

/-- refresh(ref): nothing happens while a replacement exists; otherwise exactly one is created -/
theorem refr_refresh {s : St} (h : Refr s) (t : Tables s) (slot : Slot) : Refr (refresh s slot).1 := by
  unfold refresh
  cases hg : getRef s slot with
  | none => exact h
  | some r =>
    simp only
    split
    · exact h
    · rename_i hnr
      have hnr' : r.refreshing = false := by simpa using hnr
      have hfl : flagAt s slot = some false := by unfold flagAt; unfold getRef at hg; rw [hg]; simp [hnr']
      -- no replacement for this slot exists
      have hnone : ∀ x, lookup s.refreshingMap x ≠ some slot := by
        intro x hx
        have := h.rmSlot x slot hx
        rw [hfl] at this; cases this
      have hlt : slot < s.refs.length := getRef_some_ok hg
      have hc := ccNew_fields (modRef s slot fun r => { r with refreshing := true })
      generalize ccNewSubConn (modRef s slot fun r => { r with refreshing := true }) = rr at hc ⊢
      obtain ⟨s1, o, ev⟩ := rr
      obtain ⟨-, e2, -, -, -, -, -, e8, e9⟩ := hc
      simp only at e2 e8 e9
      have e8' : s1.refreshingMap = s.refreshingMap := e8
      have hflag1 : ∀ j, flagAt s1 j = if slot = j then some true else flagAt s j := by
        intro j
        simp only [flagAt, e2, modRef, List.getElem?_modify]
        by_cases hj : slot = j
        · subst hj
          unfold getRef at hg
          simp [hg]
        · cases s.refs[j]? <;> simp [hj]
      cases o with
      | none =>
        simp only
        have hflag2 : ∀ j, flagAt (modRef s1 slot fun r => { r with refreshing := false }) j = flagAt s j := by
          intro j
          simp only [flagAt, modRef, e2, List.getElem?_modify]
          by_cases hj : slot = j
          · subst hj
            unfold getRef at hg
            simp [hg, hnr']
          · cases s.refs[j]? <;> simp [hj]
        exact refr_of_same h ⟨e8', by simp [modRef, e2], hflag2⟩
      | some sc =>
        simp only
        have hsc : sc = s.nextSc := e9 sc rfl
        have hfresh : sc ∉ keys s.refreshingMap := by
          intro hk
          have := (t.freshF sc hk).1
          rw [hsc] at this
          exact Nat.lt_irrefl _ this
        have hflagN : ∀ j, flagAt { s1 with refreshingMap := insert s1.refreshingMap sc slot } j =
            if slot = j then some true else flagAt s j := hflag1
        constructor
        · intro x j hl
          rw [hflagN j]
          have hl' : lookup (insert s1.refreshingMap sc slot) x = some j := hl
          rw [e8', lookup_insert] at hl'
          by_cases hx : sc = x
          · simp only [hx, ↓reduceIte, Option.some.injEq] at hl'
            simp [hl']
          · simp only [hx, ↓reduceIte] at hl'
            have hj : slot ≠ j := fun heq => hnone x (heq ▸ hl')
            simp only [hj, ↓reduceIte]
            exact h.rmSlot x j hl'
        · intro x x' j h1 h2
          have h1' : lookup (insert s1.refreshingMap sc slot) x = some j := h1
          have h2' : lookup (insert s1.refreshingMap sc slot) x' = some j := h2
          rw [e8', lookup_insert] at h1' h2'
          by_cases hx : sc = x
          · by_cases hx' : sc = x'
            · exact hx.symm.trans hx'
            · simp only [hx, ↓reduceIte, Option.some.injEq] at h1'
              simp only [hx', ↓reduceIte] at h2'
              exact absurd (h1' ▸ h2') (hnone x')
          · by_cases hx' : sc = x'
            · simp only [hx', ↓reduceIte, Option.some.injEq] at h2'
              simp only [hx, ↓reduceIte] at h1'
              exact absurd (h2' ▸ h1') (hnone x)
            · simp only [hx, ↓reduceIte] at h1'
              simp only [hx', ↓reduceIte] at h2'
              exact h.rmInj x x' j h1' h2'
        · intro j hf
          rw [hflagN j] at hf
          show ∃ x, lookup (insert s1.refreshingMap sc slot) x = some j
          rw [e8']
          by_cases hj : slot = j
          · exact ⟨sc, by rw [lookup_insert_self, hj]⟩
          · simp only [hj, ↓reduceIte] at hf
            obtain ⟨x, hx⟩ := h.flagRm j hf
            have hne : sc ≠ x := fun heq => hfresh (heq ▸ lookup_isSome.mp (by rw [hx]; rfl))
            exact ⟨x, by rw [lookup_insert_ne _ _ hne]; exact hx⟩

/-- the swap ends the refresh of its slot and of no other -/
theorem refr_swap {s : St} (h : Refr s) (sc : Sc) (slot : Slot) (hl : lookup s.refreshingMap sc = some slot) :
    Refr (swap s sc slot).1 := by
  cases hg : getRef s slot with
  | none => unfold swap; rw [hg]; exact h
  | some r =>
    obtain ⟨-, f2, -, -, f5, -⟩ := swap_fields (sc := sc) hg
    have hflag : ∀ j, flagAt (swap s sc slot).1 j = if slot = j then some false else flagAt s j := by
      intro j
      simp only [flagAt, f2, List.getElem?_modify]
      by_cases hj : slot = j
      · subst hj
        unfold getRef at hg
        simp [hg, swapRef]
      · cases s.refs[j]? <;> simp [hj]
    constructor
    · intro x j hx
      rw [f5, lookup_erase] at hx
      split at hx
      · cases hx
      · rename_i hne
        have hj : slot ≠ j := fun heq => hne (h.rmInj sc x slot hl (heq ▸ hx))
        rw [hflag j]; simp only [hj, ↓reduceIte]
        exact h.rmSlot x j hx
    · intro x x' j h1 h2
      rw [f5, lookup_erase] at h1 h2
      split at h1
      · cases h1
      · split at h2
        · cases h2
        · exact h.rmInj x x' j h1 h2
    · intro j hf
      rw [hflag j] at hf
      by_cases hj : slot = j
      · simp [hj] at hf
      · simp only [hj, ↓reduceIte] at hf
        obtain ⟨x, hx⟩ := h.flagRm j hf
        have hne : sc ≠ x := fun heq => hj (Option.some.inj ((heq ▸ hl).symm.trans hx))
        exact ⟨x, by rw [f5, lookup_erase_ne _ hne]; exact hx⟩

/-! ### every operation -/

theorem refr_ccsConfigure {s : St} (h : Refr s) : Refr (ccsConfigure s).1 := by
  unfold ccsConfigure
  split
  · exact h
  · exact refr_enforce (s := { s with cfg := some (initialCfg s.cfgIn) }) (refr_of_same h ⟨rfl, rfl, fun _ => rfl⟩) _ _

theorem refr_opCcs {s : St} (h : Refr s) (ver : Nat) : Refr (opCcs s ver).1 := by
  unfold opCcs
  have h0 : Refr { s with addrs := ver } := refr_of_same h ⟨rfl, rfl, fun _ => rfl⟩
  have h1 := refr_ccsConfigure h0
  generalize ccsConfigure { s with addrs := ver } = r1 at h1 ⊢
  obtain ⟨s1, ev0⟩ := r1
  simp only at h1 ⊢
  have h2 := refr_of_same h1 (sameR_updateAll s1 (ccsTargets s1))
  generalize updateAll s1 (ccsTargets s1) = r2 at h2 ⊢
  obtain ⟨s2, ev1⟩ := r2
  simp only at h2 ⊢
  split
  · exact refr_enforce h2 _ _
  · exact h2

theorem refr_getLeastBusy {s : St} (h : Refr s) (c : Cfg) (l : List Slot) : Refr (getLeastBusy s c l).1 := by
  unfold getLeastBusy
  cases leastBusy s l with
  | none => exact h
  | some m =>
    simp only
    split
    · exact h
    · split
      · exact refr_newSubConn h
      · exact h

theorem refr_chooseSlot {s : St} (h : Refr s) (c : Cfg) (l : List Slot) (key : String) :
    Refr (chooseSlot s c l key).1 := by
  unfold chooseSlot
  split
  · have h1 := refr_of_same h (sameR_getReady s c key)
    generalize getReadySubConnRef s c key = r at h1 ⊢
    obtain ⟨s1, o, b⟩ := r
    cases b with
    | true => exact h1
    | false => exact refr_getLeastBusy h1 c l
  · exact refr_getLeastBusy h c l

theorem refr_opPick {s : St} (h : Refr s) (call pn : Nat) (m : String) (ctx : CtxKind) (dl : Option Int)
    (req : Req) : Refr (opPick s call pn m ctx dl req).1 := by
  unfold opPick
  split
  · exact h
  · cases s.published[pn]? with
    | none => exact h
    | some pub =>
      obtain ⟨st, p⟩ := pub
      cases p with
      | errTF => exact h
      | errNoSc => exact h
      | gcp l =>
        simp only
        cases s.cfg with
        | none => exact h
        | some c =>
          simp only
          split
          · exact h
          · generalize resolveCall c m ctx req = rc
            obtain ⟨cmd, loc, ok⟩ := rc
            cases ok with
            | none => exact h
            | some key =>
              simp only
              split
              · unfold pickRR
                split
                · exact h
                · simp only
                  split
                  · exact refr_of_same h ((show SameR s { s with rr := (s.rr + 1) % 2 ^ 64 } from ⟨rfl, rfl, fun _ => rfl⟩).trans
                      (sameR_finishPick _ _ _ _ _ _ _ _ _))
                  · exact refr_of_same h ⟨rfl, rfl, fun _ => rfl⟩
              · have h1 := refr_chooseSlot h c l key
                generalize chooseSlot s c l key = r at h1 ⊢
                obtain ⟨s1, o, ev⟩ := r
                exact refr_of_same h1 (sameR_finishPick s1 _ _ _ _ _ _ _ _)

theorem refr_detect {s : St} (h : Refr s) (t : Tables s) (c : Cfg) (call : Call) (err : ErrKind) :
    Refr (detectUnresponsive s c call err).1 := by
  unfold detectUnresponsive
  split
  · exact h
  · split
    · exact refr_of_same h (sameR_modRef _ _ _ (fun _ => rfl))
    · cases getRef s call.slot with
      | none => exact h
      | some r =>
        simp only
        split
        · exact h
        · split
          · exact refr_refresh (refr_of_same h (sameR_modRef s call.slot (fun r => { r with deCalls := satInc r.deCalls }) (fun _ => rfl)))
              (tables_of_same t (SameT.modRef s call.slot _)) _
          · exact refr_of_same h (sameR_modRef _ _ _ (fun _ => rfl))

theorem refr_opDone {s : St} (h : Refr s) (t : Tables s) (callId : Nat) (err : ErrKind) (reply : Msg) :
    Refr (opDone s callId err reply).1 := by
  unfold opDone
  cases s.calls.find? (fun c => c.id == callId) with
  | none => exact h
  | some call =>
    simp only
    cases s.cfg with
    | none => exact h
    | some c =>
      simp only
      have hs1 : SameR s (completeCall s call) := by
        unfold completeCall
        exact (show SameR s { s with calls := s.calls.filter fun c => c.id != call.id } from ⟨rfl, rfl, fun _ => rfl⟩).trans
          (sameR_modRef _ _ _ (fun _ => rfl))
      have t1 : Tables (completeCall s call) := tables_of_same t (by unfold completeCall; exact ⟨rfl, rfl, rfl, rfl, rfl, rfl, rfl⟩)
      have h2 := refr_detect (refr_of_same h hs1) t1 c call err
      generalize detectUnresponsive (completeCall s call) c call err = r at h2 ⊢
      obtain ⟨s2, ev⟩ := r
      simp only at h2 ⊢
      split
      · exact h2
      · exact refr_of_same h2 (sameR_applyBindings s2 call reply)

theorem refr_opScs {s : St} (h : Refr s) (sc : Sc) (st : CState) (order : List Slot) : Refr (opScs s sc st order).1 := by
  unfold opScs
  have hpre : ∀ p, scsPrologue s sc st = some p → Refr p.1 := by
    intro p hp
    unfold scsPrologue at hp
    cases hl : lookup s.refreshingMap sc with
    | none => simp [hl] at hp; subst hp; exact h
    | some slot =>
      simp only [hl] at hp
      split at hp
      · cases hp
      · cases hp
        exact refr_swap h sc slot hl
  cases hp : scsPrologue s sc st with
  | none => exact h
  | some p =>
    obtain ⟨s1, ev0⟩ := p
    have h1 : Refr s1 := hpre (s1, ev0) hp
    simp only
    cases hst : stateOf s1 sc with
    | none => exact h1
    | some oldS =>
      simp only
      have h2 := sameR_recordState s1 sc st
      generalize recordState s1 sc st = r2 at h2 ⊢
      obtain ⟨s2, ev1⟩ := r2
      simp only at h2 ⊢
      have h4 : SameR s1 (maybePublish (recordTransition (cleanFallback s2 sc oldS st) oldS st) oldS st
          (cleanFallback s2 sc oldS st).aggr order).1 :=
        ((h2.trans (sameR_cleanFallback s2 sc oldS st)).trans (sameR_recordTransition _ oldS st)).trans
          (sameR_maybePublish _ oldS st _ order)
      generalize maybePublish (recordTransition (cleanFallback s2 sc oldS st) oldS st) oldS st
          (cleanFallback s2 sc oldS st).aggr order = r4 at h4 ⊢
      obtain ⟨s4, ev2⟩ := r4
      exact refr_of_same h1 h4

theorem refr_step {s : St} (h : Refr s) (t : Tables s) (op : Op) : Refr (step s op).1 := by
  have h1 : Refr (stepCore s op).1 := by
    cases op with
    | ccs ver => exact refr_opCcs h ver
    | reserr => exact h
    | scs sc st order => exact refr_opScs h sc st order
    | factory n => exact refr_of_same h ⟨rfl, rfl, fun _ => rfl⟩
    | adv ns => exact refr_of_same h ⟨rfl, rfl, fun _ => rfl⟩
    | pick call pn m ctx dl req => exact refr_opPick h call pn m ctx dl req
    | ctxdone call => exact refr_of_same h (sameR_opCtxDone s call)
    | done call err reply => exact refr_opDone h t call err reply
    | pickHold call pn m ctx dl req =>
      exact opPickHold_cases _ s call pn m ctx dl req h (fun _ => refr_of_same h ⟨rfl, rfl, fun _ => rfl⟩)
        (refr_opPick h call pn m ctx dl req)
    | resume call =>
      exact opResume_cases _ s call h (fun _ => refr_of_same h ⟨rfl, rfl, fun _ => rfl⟩)
        (fun _ _ _ _ => refr_newSubConn (refr_of_same h ⟨rfl, rfl, fun _ => rfl⟩))
  unfold step
  generalize stepCore s op = r at h1 ⊢
  obtain ⟨s1, ev⟩ := r
  have h2 := refr_of_same h1 (sameR_wake s1)
  simp only at h2 ⊢
  generalize wakeWaiters s1 = r2 at h2 ⊢
  obtain ⟨s2, ev2⟩ := r2
  exact h2

theorem refr_run (ci : CfgInput) (ops : List Op) : Refr (run (init ci) ops) := by
  unfold run
  suffices h : ∀ s, Refr s → Tables s → Refr (ops.foldl (fun s op => (step s op).1) s) from
    h _ ⟨fun sc slot hl => by simp [init, lookup] at hl, fun sc sc' slot hl => by simp [init, lookup] at hl,
         fun slot hf => by simp [init, flagAt] at hf⟩ (tables_init ci)
  induction ops with
  | nil => intro s h _; exact h
  | cons op ops ih => intro s h t; exact ih _ (refr_step h t op) (tables_step t op)

/-! ## C07 -/

/-- **C07** after every history: a slot is marked as being refreshed exactly when a replacement
    connection for it exists, and there is never more than one replacement per slot — a refresh
    creates exactly one replacement and cannot be started again before the swap -/
theorem one_replacement_per_slot (ci : CfgInput) (ops : List Op) :
    (∀ sc slot, lookup (run (init ci) ops).refreshingMap sc = some slot → flagAt (run (init ci) ops) slot = some true) ∧
    (∀ sc sc' slot, lookup (run (init ci) ops).refreshingMap sc = some slot →
        lookup (run (init ci) ops).refreshingMap sc' = some slot → sc = sc') ∧
    (∀ slot, flagAt (run (init ci) ops) slot = some true → ∃ sc, lookup (run (init ci) ops).refreshingMap sc = some slot) :=
  ⟨(refr_run ci ops).rmSlot, (refr_run ci ops).rmInj, (refr_run ci ops).flagRm⟩

/-- refresh(ref) on a slot that is already being refreshed does nothing (state and events) -/
theorem refresh_in_progress_noop (s : St) (slot : Slot) (r : RefSt) (hg : getRef s slot = some r)
    (hr : r.refreshing = true) : refresh s slot = (s, []) := by
  unfold refresh
  rw [hg]
  simp [hr]

/-- the swap hands the slot over: same position, same stream count, same key count; detector reset;
    the old connection is removed exactly once (one `remove` event) -/
theorem swap_takes_over (s : St) (sc : Sc) (slot : Slot) (r : RefSt) (hg : getRef s slot = some r) :
    getRef (swap s sc slot).1 slot = some { r with subConn := sc, deCalls := 0, lastResp := s.now, refreshing := false,
                                                   refreshCnt := r.refreshCnt + 1 } ∧
    (swap s sc slot).2 = [.remove r.subConn] ∧
    lookup (swap s sc slot).1.scRefs sc = some slot := by
  obtain ⟨f1, f2, -⟩ := swap_fields (sc := sc) hg
  refine ⟨?_, ?_, ?_⟩
  · unfold getRef at hg ⊢
    rw [f2, List.getElem?_modify, hg]
    simp [swapRef]
  · unfold swap; rw [hg]
  · rw [f1]; exact lookup_insert_self _ _ _

/-- **C07 (F23)** a replacement connection that reports IDLE before it was ever READY (its connection
    attempt failed) is told to connect again, and nothing else happens: the refresh stays in progress
    and can still complete -/
theorem replacement_idle_reconnects (s : St) (sc : Sc) (slot : Slot) (order : List Slot)
    (h : lookup s.refreshingMap sc = some slot) :
    opScs s sc .idle order = (s, [.connect sc, .res "ok"]) := by
  simp [opScs, scsPrologue, h]

/-- … and any other report short of READY for a replacement changes nothing at all -/
theorem replacement_not_ready_ignored (s : St) (sc : Sc) (slot : Slot) (st : CState) (order : List Slot)
    (h : lookup s.refreshingMap sc = some slot) (hr : st ≠ .ready) (hi : st ≠ .idle) :
    opScs s sc st order = (s, [.res "ok"]) := by
  have h1 : (st != .ready) = true := by simpa using hr
  have h2 : (st == .idle) = false := by simpa using hi
  simp [opScs, scsPrologue, h, h1, h2]

end GcpVerif.Pool
