/-
Obligations on the facts regenerated from /repo's working tree (tools/extract) — re-checked by the
kernel on every run; an edit of the Go sources that moves one of them breaks this file.
-/
import GcpVerif.Generated.Consts
import GcpVerif.Model.Pool
namespace GcpVerif.Ties
open GcpVerif.Generated

/-- C17: the balancer works on a clone of the caller's configuration and never writes through the
    parameter; GCPMultiEndpoint stores a clone and GCPConfig() hands out a clone -/
theorem config_not_mutated_not_aliased :
    initializeConfigClonesParam = true ∧ initializeConfigWritesParam = false ∧
    gmeClonesCallerConfig = true ∧ gcpConfigReturnsClone = true := by decide

/-- C17: the configuration is fixed by the first resolver update: the only call of
    initializeConfig is guarded by `gb.cfg == nil` -/
theorem first_update_wins_guard :
    initializeConfigCalls = 1 ∧ initializeConfigGuardedCalls = initializeConfigCalls := by decide

/-- C20: ResolverError does nothing but log -/
theorem resolver_error_only_logs : resolverErrorOnlyLogs = true := by decide

/-- C17: the pool model's defaults are the generated ones -/
theorem pool_defaults_tie :
    (GcpVerif.Pool.effective { min := 0, max := 0, wm := 0, fb := false, rr := false, uc := 0, ums := 0, methods := true }).min = defaultMinSize.toNat ∧
    (GcpVerif.Pool.effective { min := 0, max := 0, wm := 0, fb := false, rr := false, uc := 0, ums := 0, methods := true }).max = defaultMaxSize.toNat ∧
    (GcpVerif.Pool.effective { min := 0, max := 0, wm := 0, fb := false, rr := false, uc := 0, ums := 0, methods := true }).wm = defaultMaxStreams.toNat := by decide

/-- C12: every condition-variable wake-up of gcp_interceptor.go is sent right after a lock region has
    ended (`…Unlock(); …Broadcast()`): a waiter is then either before its check — and will see the new
    state or the finished context — or already inside `cond.Wait`, so the wake-up is not lost.  This is
    what makes `broadcast` and `watcherFire` atomic steps of the stream model. -/
theorem cond_broadcast_handshake :
    condBroadcasts = condBroadcastsAfterUnlock ∧ 2 ≤ condBroadcasts := by decide

/-- C09: the round-robin cursor is advanced by an atomic add of one and written in no other way: two
    BIND picks never obtain the same turn (what makes `pickRR` an atomic step of the pool model) -/
theorem rr_cursor_atomic_add : rrCursorAtomicAdds = 1 ∧ rrCursorOtherWrites = 0 := by decide

/-- C09 (F32): the cursor is 64 bits wide — field, atomic add and the reduction modulo the list length
    alike — which is the modulus `2^64` of the model's `pickRR` and of `rrSlot`: the cycle is unbroken
    for the first 2^64 BIND picks of a balancer (`rr_fair`), i.e. for every execution that can exist -/
theorem rr_cursor_width : rrCursorBits = 64 ∧ rrCursorAddBits = 64 ∧ rrCursorModBits = 64 := by decide

/-- C01 / C07 (F22): a completing BIND call reads the connection of its channel only after it holds the
    balancer lock (under which a refresh swaps that connection): the model's completion step, which
    binds the keys to the channel's *current* connection, is atomic with respect to the swap -/
theorem bind_reads_subconn_under_lock : bindReadsSubConnUnderLock = true := by decide

/-- C04 / C07 / C20: `UpdateClientConnState`, `UpdateSubConnState` and `refresh` hold the balancer lock
    from their first statement to their return: each is one atomic step of the pool model (no other
    callback, completion or pick of the balancer's tables can run in between) -/
theorem balancer_callbacks_hold_lock : balancerCallbacksHoldLock = true := by decide

/-- C07 (F28): the detector, which decides about a refresh without the balancer lock, starts it only
    through `refreshSince`, which re-validates the decision under the lock (the last-response time it
    was based on must still be the channel's): in the model, decision and refresh are one atomic step -/
theorem detector_decision_revalidated : detectorRefreshesUnvalidated = 0 := by decide

/-- C07 (F33): the detector's test "the call started after the last response" and the increment of the
    deadline-exceeded counter are one critical section of the channel's mutex, and every other write of
    the counter (the reset by a response, by the swap) holds that mutex too: a completion is one atomic
    step of the pool model with respect to the other completions on the channel -/
theorem detector_counts_atomically :
    deCallsTestAndCountRegions = 1 ∧ deCallsWritesOutsideLock = 0 ∧ deCallsAtomicAccesses = 0 ∧ 3 ≤ deCallsWrites := by decide

theorem balancer_name : balancerName = "grpc_gcp" := by decide

end GcpVerif.Ties
