/-
C04 / C05 — the connection tables of the pool model, for every reachable state:
`scStates` and `scRefs` have the same keys (exactly the pool's current connections), no key twice,
replacement connections are in neither, and the evaluator counters are exactly the number of pool
connections in each state (so no uint64 decrement ever wraps).
-/
import GcpVerif.Proofs.PoolCounts
import GcpVerif.Proofs.PoolStreams
namespace GcpVerif.Pool

structure Tables (s : St) : Prop where
  ndS : (keys s.scStates).Nodup
  ndR : (keys s.scRefs).Nodup
  keysEq : ∀ sc, sc ∈ keys s.scStates ↔ sc ∈ keys s.scRefs
  freshS : ∀ sc ∈ keys s.scStates, sc < s.nextSc
  freshF : ∀ sc ∈ keys s.refreshingMap, sc < s.nextSc ∧ sc ∉ keys s.scStates
  cReady : s.nReady = countState s.scStates .ready
  cConn : s.nConn = countState s.scStates .connecting
  cTF : s.nTF = countState s.scStates .tf

/-- the step leaves the tables, the replacement map, the allocation counter and the evaluator alone -/
def SameT (s s' : St) : Prop :=
  s'.scStates = s.scStates ∧ s'.scRefs = s.scRefs ∧ s'.refreshingMap = s.refreshingMap ∧
  s'.nextSc = s.nextSc ∧ s'.nReady = s.nReady ∧ s'.nConn = s.nConn ∧ s'.nTF = s.nTF

theorem SameT.refl (s : St) : SameT s s := ⟨rfl, rfl, rfl, rfl, rfl, rfl, rfl⟩

theorem SameT.trans {a b c : St} (h1 : SameT a b) (h2 : SameT b c) : SameT a c :=
  ⟨h2.1.trans h1.1, h2.2.1.trans h1.2.1, h2.2.2.1.trans h1.2.2.1, h2.2.2.2.1.trans h1.2.2.2.1,
   h2.2.2.2.2.1.trans h1.2.2.2.2.1, h2.2.2.2.2.2.1.trans h1.2.2.2.2.2.1, h2.2.2.2.2.2.2.trans h1.2.2.2.2.2.2⟩

theorem tables_of_same {s s' : St} (h : Tables s) (e : SameT s s') : Tables s' := by
  obtain ⟨e1, e2, e3, e4, e5, e6, e7⟩ := e
  constructor
  · rw [e1]; exact h.ndS
  · rw [e2]; exact h.ndR
  · rw [e1, e2]; exact h.keysEq
  · rw [e1, e4]; exact h.freshS
  · rw [e3, e4, e1]; exact h.freshF
  · rw [e5, e1]; exact h.cReady
  · rw [e6, e1]; exact h.cConn
  · rw [e7, e1]; exact h.cTF

theorem SameT.modRef (s : St) (slot : Slot) (f : RefSt → RefSt) : SameT s (modRef s slot f) :=
  ⟨rfl, rfl, rfl, rfl, rfl, rfl, rfl⟩

/-! ### creating connections -/

theorem tables_ccNew {s : St} (h : Tables s) :
    Tables (ccNewSubConn s).1 ∧ (ccNewSubConn s).1.scStates = s.scStates ∧ (ccNewSubConn s).1.scRefs = s.scRefs ∧
    (ccNewSubConn s).1.refreshingMap = s.refreshingMap ∧ (ccNewSubConn s).1.refs = s.refs ∧
    (∀ sc, (ccNewSubConn s).2.1 = some sc → sc = s.nextSc ∧ (ccNewSubConn s).1.nextSc = s.nextSc + 1) := by
  unfold ccNewSubConn
  split
  · exact ⟨h, rfl, rfl, rfl, rfl, by intro sc hsc; cases hsc⟩
  · split
    · exact ⟨tables_of_same h ⟨rfl, rfl, rfl, rfl, rfl, rfl, rfl⟩, rfl, rfl, rfl, rfl, by intro sc hsc; cases hsc⟩
    · refine ⟨?_, rfl, rfl, rfl, rfl, by intro sc hsc; simp only [Option.some.injEq] at hsc; exact ⟨hsc.symm, rfl⟩⟩
      constructor
      · exact h.ndS
      · exact h.ndR
      · exact h.keysEq
      · intro sc hsc; exact Nat.lt_succ_of_lt (h.freshS sc hsc)
      · intro sc hsc; have := h.freshF sc hsc; exact ⟨Nat.lt_succ_of_lt this.1, this.2⟩
      · exact h.cReady
      · exact h.cConn
      · exact h.cTF

theorem tables_addSubConn {s : St} (h : Tables s) : Tables (addSubConn s).1 := by
  unfold addSubConn
  have hc := tables_ccNew h
  generalize ccNewSubConn s = r at hc ⊢
  obtain ⟨s1, o, ev⟩ := r
  obtain ⟨ht, hS, hR, hF, _, hnew⟩ := hc
  simp only at ht hS hR hF hnew
  cases o with
  | none => exact ht
  | some sc =>
    simp only
    obtain ⟨hsc, hnext⟩ := hnew sc rfl
    have hnotS : sc ∉ keys s1.scStates := by
      rw [hS]; intro hm; have := h.freshS sc hm; rw [hsc] at this; exact Nat.lt_irrefl _ this
    have hnotR : sc ∉ keys s1.scRefs := by
      intro hm; exact hnotS ((ht.keysEq sc).mpr hm)
    constructor
    · exact nodup_insert ht.ndS _ _
    · exact nodup_insert ht.ndR _ _
    · intro x
      simp only [mem_keys_insert]
      constructor
      · rintro (hx | hx); exact Or.inl hx; exact Or.inr ((ht.keysEq x).mp hx)
      · rintro (hx | hx); exact Or.inl hx; exact Or.inr ((ht.keysEq x).mpr hx)
    · intro x hx
      simp only [mem_keys_insert] at hx
      rcases hx with hx | hx
      · show x < s1.nextSc
        rw [hx, hsc, hnext]; exact Nat.lt_succ_self _
      · exact ht.freshS x hx
    · intro x hx
      have := ht.freshF x hx
      refine ⟨this.1, ?_⟩
      simp only [mem_keys_insert, not_or]
      refine ⟨?_, this.2⟩
      intro heq
      -- a replacement id is below the old allocation counter, the new id equals it
      have hx' : x ∈ keys s.refreshingMap := by rw [← hF]; exact hx
      have := h.freshF x hx'
      rw [heq, hsc] at this
      exact Nat.lt_irrefl _ this.1
    · simp only; rw [countState_insert_fresh hnotS]; simp [ind]; exact ht.cReady
    · simp only; rw [countState_insert_fresh hnotS]; simp [ind]; exact ht.cConn
    · simp only; rw [countState_insert_fresh hnotS]; simp [ind]; exact ht.cTF

theorem tables_newSubConn {s : St} (h : Tables s) : Tables (newSubConn s).1 := by
  unfold newSubConn
  split
  · exact h
  · exact tables_addSubConn h

theorem tables_enforceMinSize {s : St} (h : Tables s) (min fuel : Nat) : Tables (enforceMinSize s min fuel).1 := by
  induction fuel generalizing s with
  | zero => exact h
  | succ fuel ih =>
    unfold enforceMinSize
    split
    · have ha := tables_addSubConn h
      generalize addSubConn s = r at ha ⊢
      obtain ⟨s1, ok, ev⟩ := r
      cases ok with
      | true => simp only; exact ih ha
      | false => exact ha
    · exact h

theorem tables_refresh {s : St} (h : Tables s) (slot : Slot) : Tables (refresh s slot).1 := by
  unfold refresh
  cases getRef s slot with
  | none => exact h
  | some r =>
    simp only
    split
    · exact h
    · have h1 : Tables (modRef s slot fun r => { r with refreshing := true }) := tables_of_same h (SameT.modRef _ _ _)
      have hc := tables_ccNew h1
      generalize ccNewSubConn (modRef s slot fun r => { r with refreshing := true }) = rr at hc ⊢
      obtain ⟨s1, o, ev⟩ := rr
      obtain ⟨ht, hS, hR, hF, _, hnew⟩ := hc
      simp only at ht hS hR hF hnew
      cases o with
      | none => simp only; exact tables_of_same ht (SameT.modRef _ _ _)
      | some sc =>
        simp only
        obtain ⟨hsc, hnext⟩ := hnew sc rfl
        constructor
        · exact ht.ndS
        · exact ht.ndR
        · exact ht.keysEq
        · exact ht.freshS
        · intro x hx
          simp only [mem_keys_insert] at hx
          rcases hx with hx | hx
          · refine ⟨?_, ?_⟩
            · show x < s1.nextSc
              rw [hx, hsc, hnext]; exact Nat.lt_succ_self _
            · rw [hS, hx, hsc]; intro hm
              exact Nat.lt_irrefl _ (h1.freshS _ hm)
          · exact ht.freshF x hx
        · exact ht.cReady
        · exact ht.cConn
        · exact ht.cTF

/-! ### the swap -/

theorem erase_insert_keys_iff (l : List (Sc × Slot)) (a b x : Sc) (v : Slot) :
    x ∈ keys (insert (erase l a) b v) ↔ x = b ∨ (x ∈ keys l ∧ x ≠ a) := by
  rw [mem_keys_insert, keys_erase]
  simp only [List.mem_filter, Bool.not_eq_eq_eq_not, Bool.not_true, beq_eq_false_iff_ne, ne_eq]

theorem erase_insert_keys_iff' (l : List (Sc × CState)) (a b x : Sc) (v : CState) :
    x ∈ keys (insert (erase l a) b v) ↔ x = b ∨ (x ∈ keys l ∧ x ≠ a) := by
  rw [mem_keys_insert, keys_erase]
  simp only [List.mem_filter, Bool.not_eq_eq_eq_not, Bool.not_true, beq_eq_false_iff_ne, ne_eq]

theorem tables_swap {s : St} (h : Tables s) (sc : Sc) (slot : Slot) (hrep : sc ∈ keys s.refreshingMap) :
    Tables (swap s sc slot).1 := by
  unfold swap
  cases getRef s slot with
  | none => exact h
  | some r =>
    simp only
    have hsc := h.freshF sc hrep
    have hnotS : sc ∉ keys (erase s.scStates r.subConn) := by
      rw [keys_erase]; intro hm; exact hsc.2 (List.mem_filter.mp hm).1
    constructor
    · exact nodup_insert (nodup_erase h.ndS _) _ _
    · exact nodup_insert (nodup_erase h.ndR _) _ _
    · intro x
      simp only [modRef]
      rw [erase_insert_keys_iff', erase_insert_keys_iff]
      constructor
      · rintro (hx | hx); exact Or.inl hx; exact Or.inr ⟨(h.keysEq x).mp hx.1, hx.2⟩
      · rintro (hx | hx); exact Or.inl hx; exact Or.inr ⟨(h.keysEq x).mpr hx.1, hx.2⟩
    · intro x hx
      simp only [modRef] at hx ⊢
      rw [erase_insert_keys_iff'] at hx
      rcases hx with hx | hx
      · subst hx; exact hsc.1
      · exact h.freshS x hx.1
    · intro x hx
      simp only [modRef] at hx ⊢
      rw [keys_erase] at hx
      have hx' := List.mem_filter.mp hx
      have hne : x ≠ sc := by simpa using hx'.2
      have := h.freshF x hx'.1
      refine ⟨this.1, ?_⟩
      rw [erase_insert_keys_iff']
      rintro (heq | heq)
      · exact hne heq
      · exact this.2 heq.1
    all_goals
      simp only [modRef]
      rw [countState_insert_fresh hnotS]
      cases hl : lookup s.scStates r.subConn with
      | some old =>
        simp only [stateOf, hl, Option.getD_some]
        have := countState_erase h.ndS hl
        first
          | (rw [h.cReady, this .ready])
          | (rw [h.cConn, this .connecting])
          | (rw [h.cTF, this .tf])
      | none =>
        simp only [stateOf, hl, Option.getD_none]
        have hab : r.subConn ∉ keys s.scStates := lookup_eq_none.mp hl
        rw [countState_erase_absent hab]
        first
          | (rw [h.cReady]; simp [ind])
          | (rw [h.cConn]; simp [ind])
          | (rw [h.cTF]; simp [ind])

/-! ### recording a state report -/

theorem erase_insert_same (l : List (Sc × CState)) (k : Sc) (v : CState) : erase (insert l k v) k = erase l k := by
  by_cases hk : k ∈ keys l
  · rw [insert_of_mem hk]
    unfold erase
    induction l with
    | nil => rfl
    | cons p l ih =>
      simp only [List.map_cons, List.filter_cons]
      by_cases hp : p.1 = k
      · have hb : (p.1 == k) = true := by simpa using hp
        simp only [hb, ↓reduceIte, beq_self_eq_true, Bool.not_true, Bool.false_eq_true]
        by_cases hk' : k ∈ keys l
        · exact ih hk'
        · rw [map_upd_absent hk']
      · have hb : (p.1 == k) = false := by simpa using hp
        simp only [hb, Bool.false_eq_true, ↓reduceIte, Bool.not_false]
        have hk' : k ∈ keys l := by
          simp only [keys_cons, List.mem_cons] at hk
          rcases hk with h | h
          · exact absurd h.symm hp
          · exact h
        rw [ih hk']
  · rw [insert_of_not_mem hk]
    unfold erase
    simp [List.filter_append]

theorem dec64_pos {n : Nat} (h : 0 < n) : dec64 n = n - 1 := by
  unfold dec64
  have : (n == 0) = false := by simpa using (by omega : n ≠ 0)
  simp [this]

/-- one evaluator counter across a transition: `e` entries of other connections are in state x -/
theorem counter_step (x oldS st : CState) (n e : Nat) (hn : n = e + ind (oldS == x)) :
    (if st == x then inc64 else id) ((if oldS == x then dec64 else id) n) = e + ind (st == x) := by
  by_cases ho : (oldS == x) = true <;> by_cases hs : (st == x) = true
  · simp only [ho, hs, ↓reduceIte, ind] at hn ⊢
    rw [dec64_pos (by omega)]; unfold inc64; omega
  · simp only [ho, hs, ↓reduceIte, ind, Bool.false_eq_true, id] at hn ⊢
    rw [dec64_pos (by omega)]; omega
  · simp only [ho, hs, ↓reduceIte, ind, Bool.false_eq_true, id] at hn ⊢
    unfold inc64; omega
  · simp only [ho, hs, ↓reduceIte, ind, Bool.false_eq_true, id] at hn ⊢
    omega

theorem updCounter_fields (s : St) (st : CState) (f : Nat → Nat) :
    (updCounter s st f).scStates = s.scStates ∧ (updCounter s st f).scRefs = s.scRefs ∧
    (updCounter s st f).refreshingMap = s.refreshingMap ∧ (updCounter s st f).nextSc = s.nextSc ∧
    (updCounter s st f).nReady = (if st == .ready then f else id) s.nReady ∧
    (updCounter s st f).nConn = (if st == .connecting then f else id) s.nConn ∧
    (updCounter s st f).nTF = (if st == .tf then f else id) s.nTF := by
  cases st <;> simp [updCounter]

theorem recordTransition_fields (s : St) (a b : CState) :
    (recordTransition s a b).scStates = s.scStates ∧ (recordTransition s a b).scRefs = s.scRefs ∧
    (recordTransition s a b).refreshingMap = s.refreshingMap ∧ (recordTransition s a b).nextSc = s.nextSc ∧
    (recordTransition s a b).nReady = (if b == .ready then inc64 else id) ((if a == .ready then dec64 else id) s.nReady) ∧
    (recordTransition s a b).nConn = (if b == .connecting then inc64 else id) ((if a == .connecting then dec64 else id) s.nConn) ∧
    (recordTransition s a b).nTF = (if b == .tf then inc64 else id) ((if a == .tf then dec64 else id) s.nTF) := by
  unfold recordTransition
  have h1 := updCounter_fields s a dec64
  have h2 := updCounter_fields (updCounter s a dec64) b inc64
  simp only
  refine ⟨h2.1.trans h1.1, h2.2.1.trans h1.2.1, h2.2.2.1.trans h1.2.2.1, h2.2.2.2.1.trans h1.2.2.2.1, ?_, ?_, ?_⟩
  · rw [h2.2.2.2.2.1, h1.2.2.2.2.1]
  · rw [h2.2.2.2.2.2.1, h1.2.2.2.2.2.1]
  · rw [h2.2.2.2.2.2.2, h1.2.2.2.2.2.2]

theorem cleanFallback_sameT (s : St) (sc : Sc) (a b : CState) : SameT s (cleanFallback s sc a b) := by
  unfold cleanFallback
  simp only
  split <;> split <;> exact ⟨rfl, rfl, rfl, rfl, rfl, rfl, rfl⟩

/-- the state report of a pool connection: tables and counters stay exact -/
theorem tables_report {s : St} (h : Tables s) (sc : Sc) (oldS st : CState) (hold : stateOf s sc = some oldS) :
    Tables (recordTransition (cleanFallback (recordState s sc st).1 sc oldS st) oldS st) := by
  have hl : lookup s.scStates sc = some oldS := hold
  have hmem : sc ∈ keys s.scStates := lookup_isSome.mp (by rw [hl]; rfl)
  have hE := countState_erase h.ndS hl
  -- the table after recordState, by cases on Shutdown
  have hrec : (recordState s sc st).1.scStates = (if st = .shutdown then erase s.scStates sc else insert s.scStates sc st) ∧
      (recordState s sc st).1.scRefs = (if st = .shutdown then erase s.scRefs sc else s.scRefs) ∧
      (recordState s sc st).1.refreshingMap = s.refreshingMap ∧ (recordState s sc st).1.nextSc = s.nextSc ∧
      (recordState s sc st).1.nReady = s.nReady ∧ (recordState s sc st).1.nConn = s.nConn ∧ (recordState s sc st).1.nTF = s.nTF := by
    unfold recordState
    cases st <;> simp [erase_insert_same]
  have hcf := cleanFallback_sameT (recordState s sc st).1 sc oldS st
  have hrt := recordTransition_fields (cleanFallback (recordState s sc st).1 sc oldS st) oldS st
  generalize recordTransition (cleanFallback (recordState s sc st).1 sc oldS st) oldS st = s3 at hrt ⊢
  obtain ⟨t1, t2, t3, t4, t5, t6, t7⟩ := hrt
  obtain ⟨c1, c2, c3, c4, c5, c6, c7⟩ := hcf
  obtain ⟨r1, r2, r3, r4, r5, r6, r7⟩ := hrec
  have hcount : ∀ x, x ≠ CState.shutdown → x ≠ CState.idle ∨ True →
      countState s3.scStates x = countState (erase s.scStates sc) x + ind (st == x) := by
    intro x hx _
    rw [t1, c1, r1]
    by_cases hsd : st = .shutdown
    · simp only [hsd, ↓reduceIte]
      have : (CState.shutdown == x) = false := by simpa using fun heq => hx heq.symm
      simp [ind, this]
    · simp only [hsd, ↓reduceIte]
      exact countState_insert_existing h.ndS hl st x
  constructor
  · rw [t1, c1, r1]
    split
    · exact nodup_erase h.ndS _
    · exact nodup_insert h.ndS _ _
  · rw [t2, c2, r2]
    split
    · exact nodup_erase h.ndR _
    · exact h.ndR
  · intro x
    rw [t1, c1, r1, t2, c2, r2]
    by_cases hsd : st = .shutdown
    · simp only [hsd, ↓reduceIte, keys_erase, List.mem_filter]
      constructor
      · intro hx; exact ⟨(h.keysEq x).mp hx.1, hx.2⟩
      · intro hx; exact ⟨(h.keysEq x).mpr hx.1, hx.2⟩
    · simp only [hsd, ↓reduceIte, keys_insert_of_mem hmem]
      exact h.keysEq x
  · intro x hx
    rw [t1, c1, r1] at hx
    rw [t4, c4, r4]
    by_cases hsd : st = .shutdown
    · simp only [hsd, ↓reduceIte, keys_erase, List.mem_filter] at hx
      exact h.freshS x hx.1
    · simp only [hsd, ↓reduceIte, keys_insert_of_mem hmem] at hx
      exact h.freshS x hx
  · intro x hx
    rw [t3, c3, r3] at hx
    rw [t4, c4, r4, t1, c1, r1]
    have := h.freshF x hx
    refine ⟨this.1, ?_⟩
    by_cases hsd : st = .shutdown
    · simp only [hsd, ↓reduceIte, keys_erase, List.mem_filter, not_and]
      intro hm; exact absurd hm this.2
    · simp only [hsd, ↓reduceIte, keys_insert_of_mem hmem]
      exact this.2
  · rw [t5, c5, r5, hcount .ready (by simp) (Or.inr trivial)]
    exact counter_step .ready oldS st s.nReady _ (by rw [h.cReady]; exact hE .ready)
  · rw [t6, c6, r6, hcount .connecting (by simp) (Or.inr trivial)]
    exact counter_step .connecting oldS st s.nConn _ (by rw [h.cConn]; exact hE .connecting)
  · rw [t7, c7, r7, hcount .tf (by simp) (Or.inr trivial)]
    exact counter_step .tf oldS st s.nTF _ (by rw [h.cTF]; exact hE .tf)

/-! ### every operation -/

theorem SameT.of_eq {s s' : St} (h1 : s'.scStates = s.scStates) (h2 : s'.scRefs = s.scRefs)
    (h3 : s'.refreshingMap = s.refreshingMap) (h4 : s'.nextSc = s.nextSc) (h5 : s'.nReady = s.nReady)
    (h6 : s'.nConn = s.nConn) (h7 : s'.nTF = s.nTF) : SameT s s' := ⟨h1, h2, h3, h4, h5, h6, h7⟩

theorem place_sameT (s : St) (call : Nat) (slot : Slot) (cmd : Cmd) (loc : Loc) (key : String) (ctx : CtxKind)
    (dl : Option Int) : SameT s (place s call slot cmd loc key ctx dl).1 := by
  unfold place
  cases getRef s slot <;> exact ⟨rfl, rfl, rfl, rfl, rfl, rfl, rfl⟩

theorem getReady_sameT (s : St) (c : Cfg) (key : String) : SameT s (getReadySubConnRef s c key).1 := by
  unfold getReadySubConnRef
  repeat' split
  all_goals exact ⟨rfl, rfl, rfl, rfl, rfl, rfl, rfl⟩

theorem regenerate_sameT (s : St) (o : List Slot) : SameT s (regeneratePicker s o) := by
  unfold regeneratePicker
  split <;> exact ⟨rfl, rfl, rfl, rfl, rfl, rfl, rfl⟩

theorem maybePublish_sameT (s : St) (a b c : CState) (o : List Slot) : SameT s (maybePublish s a b c o).1 := by
  unfold maybePublish
  split
  · exact (regenerate_sameT s o).trans ⟨rfl, rfl, rfl, rfl, rfl, rfl, rfl⟩
  · exact SameT.refl s

theorem updateAll_sameT (s : St) (scs : List Sc) : SameT s (updateAll s scs).1 := by
  unfold updateAll
  suffices h : ∀ (acc : St × List Event), SameT s acc.1 →
      SameT s (scs.foldl (fun (acc : St × List Event) sc =>
        ({ acc.1 with scAddrs := insert acc.1.scAddrs sc acc.1.addrs }, acc.2 ++ [.upd sc acc.1.addrs, .connect sc])) acc).1 from
    h (s, []) (SameT.refl s)
  induction scs with
  | nil => intro acc h; exact h
  | cons x xs ih =>
    intro acc h
    simp only [List.foldl_cons]
    exact ih _ (h.trans ⟨rfl, rfl, rfl, rfl, rfl, rfl, rfl⟩)

theorem bump_sameT (s : St) (sc : Sc) (d : Int) : SameT s (bumpAffinity s sc d) := by
  unfold bumpAffinity; split <;> exact ⟨rfl, rfl, rfl, rfl, rfl, rfl, rfl⟩

theorem bind_sameT (s : St) (k : String) (sc : Sc) : SameT s (bindSubConn s k sc) := by
  unfold bindSubConn
  refine SameT.trans ?_ (bump_sameT _ sc 1)
  unfold addBinding; split <;> exact ⟨rfl, rfl, rfl, rfl, rfl, rfl, rfl⟩

theorem unbind_sameT (s : St) (k : String) : SameT s (unbindSubConn s k) := by
  unfold unbindSubConn
  cases lookup s.affinity k with
  | none => exact SameT.refl s
  | some sc => exact (bump_sameT s sc (-1)).trans ⟨rfl, rfl, rfl, rfl, rfl, rfl, rfl⟩

theorem foldl_bind_sameT (keys : List String) (sc : Sc) (s : St) :
    SameT s (keys.foldl (fun s k => bindSubConn s k sc) s) := by
  induction keys generalizing s with
  | nil => exact SameT.refl s
  | cons k ks ih => exact (bind_sameT s k sc).trans (ih _)

theorem applyBindings_sameT (s : St) (call : Call) (reply : Msg) : SameT s (applyBindings s call reply) := by
  unfold applyBindings
  cases call.cmd with
  | bound => exact SameT.refl s
  | unbind => exact unbind_sameT s _
  | bind =>
    simp only
    split
    · exact SameT.refl s
    · split
      · exact SameT.refl s
      · split
        · exact SameT.refl s
        · exact foldl_bind_sameT _ _ s

theorem tables_ccsConfigure {s : St} (h : Tables s) : Tables (ccsConfigure s).1 := by
  unfold ccsConfigure
  split
  · exact h
  · exact tables_enforceMinSize (s := { s with cfg := some (initialCfg s.cfgIn) })
      (tables_of_same h ⟨rfl, rfl, rfl, rfl, rfl, rfl, rfl⟩) _ _

theorem tables_opCcs {s : St} (h : Tables s) (ver : Nat) : Tables (opCcs s ver).1 := by
  unfold opCcs
  have h0 : Tables { s with addrs := ver } := tables_of_same h ⟨rfl, rfl, rfl, rfl, rfl, rfl, rfl⟩
  have h1 : Tables (ccsConfigure { s with addrs := ver }).1 := tables_ccsConfigure h0
  generalize ccsConfigure { s with addrs := ver } = r1 at h1 ⊢
  obtain ⟨s1, ev0⟩ := r1
  simp only at h1 ⊢
  have h2 := tables_of_same h1 (updateAll_sameT s1 (ccsTargets s1))
  generalize updateAll s1 (ccsTargets s1) = r2 at h2 ⊢
  obtain ⟨s2, ev1⟩ := r2
  simp only at h2 ⊢
  split
  · exact tables_enforceMinSize h2 _ _
  · exact h2

theorem tables_opScs {s : St} (h : Tables s) (sc : Sc) (st : CState) (order : List Slot) :
    Tables (opScs s sc st order).1 := by
  unfold opScs
  have hpre : ∀ p, scsPrologue s sc st = some p → Tables p.1 := by
    intro p hp
    unfold scsPrologue at hp
    cases hl : lookup s.refreshingMap sc with
    | none => simp [hl] at hp; subst hp; exact h
    | some slot =>
      simp only [hl] at hp
      split at hp
      · cases hp
      · cases hp
        exact tables_swap h sc slot (lookup_isSome.mp (by rw [hl]; rfl))
  cases hp : scsPrologue s sc st with
  | none => exact h
  | some p =>
    obtain ⟨s1, ev0⟩ := p
    have h1 : Tables s1 := hpre (s1, ev0) hp
    simp only
    cases hst : stateOf s1 sc with
    | none => exact h1
    | some oldS =>
      simp only
      have h2 := tables_report h1 sc oldS st hst
      generalize recordState s1 sc st = r2 at h2 ⊢
      obtain ⟨s2, ev1⟩ := r2
      simp only at h2 ⊢
      exact tables_of_same h2 (maybePublish_sameT _ oldS st _ order)

theorem tables_getLeastBusy {s : St} (h : Tables s) (c : Cfg) (l : List Slot) : Tables (getLeastBusy s c l).1 := by
  unfold getLeastBusy
  cases leastBusy s l with
  | none => exact h
  | some m =>
    simp only
    split
    · exact h
    · split
      · exact tables_newSubConn h
      · exact h

theorem tables_chooseSlot {s : St} (h : Tables s) (c : Cfg) (l : List Slot) (key : String) :
    Tables (chooseSlot s c l key).1 := by
  unfold chooseSlot
  split
  · have h1 := tables_of_same h (getReady_sameT s c key)
    generalize getReadySubConnRef s c key = r at h1 ⊢
    obtain ⟨s1, o, b⟩ := r
    cases b with
    | true => exact h1
    | false => exact tables_getLeastBusy h1 c l
  · exact tables_getLeastBusy h c l

theorem tables_finishPick {s : St} (h : Tables s) (r : Option Slot) (ev : List Event) (call : Nat) (cmd : Cmd)
    (loc : Loc) (key : String) (ctx : CtxKind) (dl : Option Int) :
    Tables (finishPick s r ev call cmd loc key ctx dl).1 := by
  unfold finishPick
  cases r with
  | none => exact h
  | some slot =>
    simp only
    have := tables_of_same h (place_sameT s call slot cmd loc key ctx dl)
    generalize place s call slot cmd loc key ctx dl = p at this ⊢
    obtain ⟨s1, o⟩ := p
    cases o <;> exact this

theorem tables_opPick {s : St} (h : Tables s) (call pn : Nat) (m : String) (ctx : CtxKind) (dl : Option Int)
    (req : Req) : Tables (opPick s call pn m ctx dl req).1 := by
  unfold opPick
  split
  · exact h
  · cases s.published[pn]? with
    | none => exact h
    | some pub =>
      obtain ⟨st, p⟩ := pub
      cases p with
      | errTF => exact h
      | errNoSc => exact h
      | gcp l =>
        simp only
        cases s.cfg with
        | none => exact h
        | some c =>
          simp only
          split
          · exact h
          · generalize resolveCall c m ctx req = rc
            obtain ⟨cmd, loc, ok⟩ := rc
            cases ok with
            | none => exact h
            | some key =>
              simp only
              split
              · unfold pickRR
                split
                · exact h
                · simp only
                  split
                  · exact tables_finishPick (s := { s with rr := (s.rr + 1) % 2 ^ 64 })
                      (tables_of_same h ⟨rfl, rfl, rfl, rfl, rfl, rfl, rfl⟩) _ _ _ _ _ _ _ _
                  · exact tables_of_same h ⟨rfl, rfl, rfl, rfl, rfl, rfl, rfl⟩
              · have h1 := tables_chooseSlot h c l key
                generalize chooseSlot s c l key = r at h1 ⊢
                obtain ⟨s1, o, ev⟩ := r
                exact tables_finishPick h1 _ _ _ _ _ _ _ _

theorem tables_detect {s : St} (h : Tables s) (c : Cfg) (call : Call) (err : ErrKind) :
    Tables (detectUnresponsive s c call err).1 := by
  unfold detectUnresponsive
  split
  · exact h
  · split
    · exact tables_of_same h (SameT.modRef _ _ _)
    · cases getRef s call.slot with
      | none => exact h
      | some r =>
        simp only
        split
        · exact h
        · split
          · exact tables_refresh (tables_of_same h (SameT.modRef s call.slot _)) _
          · exact tables_of_same h (SameT.modRef _ _ _)

theorem tables_opDone {s : St} (h : Tables s) (callId : Nat) (err : ErrKind) (reply : Msg) :
    Tables (opDone s callId err reply).1 := by
  unfold opDone
  cases s.calls.find? (fun c => c.id == callId) with
  | none => exact h
  | some call =>
    simp only
    cases s.cfg with
    | none => exact h
    | some c =>
      simp only
      have h1 : Tables (completeCall s call) := tables_of_same h (by unfold completeCall; exact ⟨rfl, rfl, rfl, rfl, rfl, rfl, rfl⟩)
      have h2 := tables_detect h1 c call err
      generalize detectUnresponsive (completeCall s call) c call err = r at h2 ⊢
      obtain ⟨s2, ev⟩ := r
      simp only at h2 ⊢
      split
      · exact h2
      · exact tables_of_same h2 (applyBindings_sameT s2 call reply)

theorem tables_opCtxDone {s : St} (h : Tables s) (callId : Nat) : Tables (opCtxDone s callId).1 := by
  unfold opCtxDone
  cases s.waiters.find? (fun w => w.id == callId) with
  | none => exact h
  | some w =>
    simp only
    have hp := tables_of_same (tables_of_same h (s' := { s with waiters := s.waiters.filter fun x => x.id != callId })
      ⟨rfl, rfl, rfl, rfl, rfl, rfl, rfl⟩) (place_sameT _ w.id w.slot .bind w.loc "" w.ctx w.dl)
    unfold placeWaiter
    generalize place { s with waiters := s.waiters.filter fun x => x.id != callId } w.id w.slot .bind w.loc "" w.ctx w.dl = r at hp ⊢
    obtain ⟨s1, o⟩ := r
    cases o <;> exact hp

theorem tables_wake {s : St} (h : Tables s) : Tables (wakeWaiters s).1 := by
  unfold wakeWaiters
  suffices hs : ∀ (ws : List Waiter) (acc : St × List Event), Tables acc.1 →
      Tables (ws.foldl (fun (acc : St × List Event) w =>
        if slotReady acc.1 w.slot then
          match placeWaiter { acc.1 with waiters := acc.1.waiters.filter fun x => x.id != w.id } w with
          | (s, some sc) => (s, acc.2 ++ [.woke w.id sc])
          | (_, none) => acc
        else acc) acc).1 from hs s.waiters (s, []) h
  intro ws
  induction ws with
  | nil => intro acc h; exact h
  | cons w ws ih =>
    intro acc hacc
    simp only [List.foldl_cons]
    apply ih
    split
    · have hp := tables_of_same (tables_of_same hacc (s' := { acc.1 with waiters := acc.1.waiters.filter fun x => x.id != w.id })
        ⟨rfl, rfl, rfl, rfl, rfl, rfl, rfl⟩) (place_sameT _ w.id w.slot .bind w.loc "" w.ctx w.dl)
      unfold placeWaiter
      generalize place { acc.1 with waiters := acc.1.waiters.filter fun x => x.id != w.id } w.id w.slot .bind w.loc "" w.ctx w.dl = r at hp ⊢
      obtain ⟨s1, o⟩ := r
      cases o with
      | none => exact hacc
      | some sc => exact hp
    · exact hacc

theorem tables_step {s : St} (h : Tables s) (op : Op) : Tables (step s op).1 := by
  unfold step
  have h1 : Tables (stepCore s op).1 := by
    cases op with
    | ccs ver => exact tables_opCcs h ver
    | reserr => exact h
    | scs sc st order => exact tables_opScs h sc st order
    | factory n => exact tables_of_same h ⟨rfl, rfl, rfl, rfl, rfl, rfl, rfl⟩
    | adv ns => exact tables_of_same h ⟨rfl, rfl, rfl, rfl, rfl, rfl, rfl⟩
    | pick call pn m ctx dl req => exact tables_opPick h call pn m ctx dl req
    | ctxdone call => exact tables_opCtxDone h call
    | done call err reply => exact tables_opDone h call err reply
    | pickHold call pn m ctx dl req =>
      exact opPickHold_cases _ s call pn m ctx dl req h (fun _ => tables_of_same h ⟨rfl, rfl, rfl, rfl, rfl, rfl, rfl⟩)
        (tables_opPick h call pn m ctx dl req)
    | resume call =>
      exact opResume_cases _ s call h (fun _ => tables_of_same h ⟨rfl, rfl, rfl, rfl, rfl, rfl, rfl⟩)
        (fun _ _ _ _ => tables_newSubConn (tables_of_same h ⟨rfl, rfl, rfl, rfl, rfl, rfl, rfl⟩))
  generalize stepCore s op = r at h1 ⊢
  obtain ⟨s1, ev⟩ := r
  have h2 := tables_wake h1
  simp only
  generalize wakeWaiters s1 = r2 at h2 ⊢
  obtain ⟨s2, ev2⟩ := r2
  exact h2

theorem tables_init (ci : CfgInput) : Tables (init ci) := by
  constructor <;> simp [init, keys, countState]

theorem tables_run (ci : CfgInput) (ops : List Op) : Tables (run (init ci) ops) := by
  unfold run
  suffices h : ∀ s, Tables s → Tables (ops.foldl (fun s op => (step s op).1) s) from h _ (tables_init ci)
  induction ops with
  | nil => intro s h; exact h
  | cons op ops ih => intro s h; exact ih _ (tables_step h op)

/-! ## C04 -/

/-- **C04.1** after every history the evaluator counters equal the number of pool connections in
    each state: no uint64 decrement is ever unmatched -/
theorem counters_exact (ci : CfgInput) (ops : List Op) :
    countersExact (run (init ci) ops).scStates (run (init ci) ops).nReady (run (init ci) ops).nConn
      (run (init ci) ops).nTF = true := by
  have h := tables_run ci ops
  simp [countersExact, h.cReady, h.cConn, h.cTF]

/-- **C04.2 / C05** the state table and the slot table always describe the same connections (so the
    ready list of a new picker never contains a missing slot), and replacement connections of an
    unfinished refresh are in neither -/
theorem pool_connections_only (ci : CfgInput) (ops : List Op) :
    (∀ sc, sc ∈ keys (run (init ci) ops).scStates ↔ sc ∈ keys (run (init ci) ops).scRefs) ∧
    (∀ sc ∈ keys (run (init ci) ops).refreshingMap, sc ∉ keys (run (init ci) ops).scStates) ∧
    (keys (run (init ci) ops).scStates).Nodup ∧ (keys (run (init ci) ops).scRefs).Nodup := by
  have h := tables_run ci ops
  exact ⟨h.keysEq, fun sc hsc => (h.freshF sc hsc).2, h.ndS, h.ndR⟩

end GcpVerif.Pool
