/-
Every operation of the pool model is a composition of a fixed set of primitive stages.

`Leaves R` lists the primitive stages (one field per stage, with the side conditions the model
guarantees at that point); `lift_step` shows that a reflexive, transitive relation `R` which holds
across every primitive stage holds across every operation (including the wake-ups that follow it).
Invariants proved after this file only have to treat the primitive stages.
-/
import GcpVerif.Model.Pool
import GcpVerif.Proofs.PoolHold
namespace GcpVerif.Pool

/-- the composite that follows the prologue of UpdateSubConnState for a known connection -/
def report (s : St) (sc : Sc) (oldS st : CState) (order : List Slot) : St × List Event :=
  let r1 := recordState s sc st
  let s2 := cleanFallback r1.1 sc oldS st
  let s3 := recordTransition s2 oldS st
  maybePublish s3 oldS st s2.aggr order

/-- the stages that neither complete a call nor report a connection state -/
structure StagesA (R : St → St → Prop) : Prop where
  setAddrs : ∀ (s : St) (v : Nat), R s { s with addrs := v }
  setCfg : ∀ s : St, s.cfg = none → R s { s with cfg := some (initialCfg s.cfgIn) }
  setFail : ∀ (s : St) (n : Nat), R s { s with failN := n }
  setNow : ∀ (s : St) (n : Nat), R s { s with now := s.now + n }
  setRr : ∀ s : St, R s { s with rr := (s.rr + 1) % 2 ^ 64 }
  setHeld : ∀ (s : St) (hl : List (Nat × Nat)), R s { s with held := hl }
  addWaiter : ∀ (s : St) (w : Waiter), R s { s with waiters := s.waiters ++ [w] }
  dropWaiter : ∀ (s : St) (id : Nat), R s { s with waiters := s.waiters.filter fun x => x.id != id }
  addSubConn : ∀ s : St, R s (Pool.addSubConn s).1
  updateAll : ∀ (s : St) (scs : List Sc), R s (Pool.updateAll s scs).1
  place : ∀ (s : St) (call : Nat) (slot : Slot) (cmd : Cmd) (loc : Loc) (key : String) (ctx : CtxKind) (dl : Option Int),
    R s (Pool.place s call slot cmd loc key ctx dl).1
  getReady : ∀ (s : St) (c : Cfg) (key : String), R s (getReadySubConnRef s c key).1

structure Stages (R : St → St → Prop) : Prop extends StagesA R where
  refresh : ∀ (s : St) (slot : Slot), R s (Pool.refresh s slot).1
  completeCall : ∀ (s : St) (call : Call), call ∈ s.calls → R s (Pool.completeCall s call)
  detReset : ∀ (s : St) (slot : Slot),
    R s (modRef s slot fun r => { r with lastResp := s.now, deCalls := 0, refreshCnt := 0 })
  deInc : ∀ (s : St) (slot : Slot), R s (modRef s slot fun r => { r with deCalls := satInc r.deCalls })
  bindAll : ∀ (s : St) (keys : List String) (slot : Slot) (r : RefSt), getRef s slot = some r →
    R s (keys.foldl (fun s k => bindSubConn s k r.subConn) s)
  unbind : ∀ (s : St) (key : String), R s (unbindSubConn s key)
  swap : ∀ (s : St) (sc : Sc) (slot : Slot), lookup s.refreshingMap sc = some slot → R s (Pool.swap s sc slot).1
  report : ∀ (s : St) (sc : Sc) (oldS st : CState) (order : List Slot), stateOf s sc = some oldS →
    R s (Pool.report s sc oldS st order).1

/-- … with reflexivity and transitivity -/
structure LeavesA (R : St → St → Prop) : Prop extends StagesA R where
  refl : ∀ s : St, R s s
  trans : ∀ {a b c : St}, R a b → R b c → R a c

structure Leaves (R : St → St → Prop) : Prop extends Stages R where
  refl : ∀ s : St, R s s
  trans : ∀ {a b c : St}, R a b → R b c → R a c

/-- `I` is kept by the stage -/
def Keeps (I : St → Prop) (s s' : St) : Prop := I s → I s'

theorem keeps_leaves {I : St → Prop} (S : Stages (Keeps I)) : Leaves (Keeps I) :=
  { S with refl := fun _ h => h, trans := fun h1 h2 h => h2 (h1 h) }

/-- an invariant `J` that needs `I` to be maintained: both are kept -/
theorem Stages.and {I J : St → Prop} (S1 : Stages (Keeps I)) (S2 : Stages fun s s' => I s → J s → J s') :
    Stages (Keeps fun s => I s ∧ J s) where
  setAddrs s v := fun h => ⟨S1.setAddrs s v h.1, S2.setAddrs s v h.1 h.2⟩
  setCfg s hc := fun h => ⟨S1.setCfg s hc h.1, S2.setCfg s hc h.1 h.2⟩
  setFail s n := fun h => ⟨S1.setFail s n h.1, S2.setFail s n h.1 h.2⟩
  setNow s n := fun h => ⟨S1.setNow s n h.1, S2.setNow s n h.1 h.2⟩
  setRr s := fun h => ⟨S1.setRr s h.1, S2.setRr s h.1 h.2⟩
  setHeld s hl := fun h => ⟨S1.setHeld s hl h.1, S2.setHeld s hl h.1 h.2⟩
  addWaiter s w := fun h => ⟨S1.addWaiter s w h.1, S2.addWaiter s w h.1 h.2⟩
  dropWaiter s id := fun h => ⟨S1.dropWaiter s id h.1, S2.dropWaiter s id h.1 h.2⟩
  addSubConn s := fun h => ⟨S1.addSubConn s h.1, S2.addSubConn s h.1 h.2⟩
  refresh s slot := fun h => ⟨S1.refresh s slot h.1, S2.refresh s slot h.1 h.2⟩
  updateAll s scs := fun h => ⟨S1.updateAll s scs h.1, S2.updateAll s scs h.1 h.2⟩
  place s call slot cmd loc key ctx dl := fun h =>
    ⟨S1.place s call slot cmd loc key ctx dl h.1, S2.place s call slot cmd loc key ctx dl h.1 h.2⟩
  getReady s c key := fun h => ⟨S1.getReady s c key h.1, S2.getReady s c key h.1 h.2⟩
  completeCall s call hc := fun h => ⟨S1.completeCall s call hc h.1, S2.completeCall s call hc h.1 h.2⟩
  detReset s slot := fun h => ⟨S1.detReset s slot h.1, S2.detReset s slot h.1 h.2⟩
  deInc s slot := fun h => ⟨S1.deInc s slot h.1, S2.deInc s slot h.1 h.2⟩
  bindAll s keys slot r hg := fun h => ⟨S1.bindAll s keys slot r hg h.1, S2.bindAll s keys slot r hg h.1 h.2⟩
  unbind s key := fun h => ⟨S1.unbind s key h.1, S2.unbind s key h.1 h.2⟩
  swap s sc slot hl := fun h => ⟨S1.swap s sc slot hl h.1, S2.swap s sc slot hl h.1 h.2⟩
  report s sc oldS st order hs := fun h => ⟨S1.report s sc oldS st order hs h.1, S2.report s sc oldS st order hs h.1 h.2⟩

variable {R : St → St → Prop}

def Leaves.toA (L : Leaves R) : LeavesA R := { L.toStages.toStagesA with refl := L.refl, trans := L.trans }

theorem lift_newSubConn (L : LeavesA R) (s : St) : R s (newSubConn s).1 := by
  unfold newSubConn; split
  · exact L.refl s
  · exact L.addSubConn s

theorem lift_enforce (L : LeavesA R) (s : St) (min fuel : Nat) : R s (enforceMinSize s min fuel).1 := by
  induction fuel generalizing s with
  | zero => exact L.refl s
  | succ fuel ih =>
    unfold enforceMinSize
    split
    · have h := L.addSubConn s
      generalize Pool.addSubConn s = r at h ⊢
      obtain ⟨s1, ok, ev⟩ := r
      cases ok with
      | true => simp only; exact L.trans h (ih s1)
      | false => exact h
    · exact L.refl s

theorem lift_ccsConfigure (L : LeavesA R) (s : St) : R s (ccsConfigure s).1 := by
  unfold ccsConfigure
  cases hc : s.cfg with
  | some c => exact L.refl s
  | none => exact L.trans (L.setCfg s hc) (lift_enforce L _ _ _)

theorem lift_opCcs (L : LeavesA R) (s : St) (ver : Nat) : R s (opCcs s ver).1 := by
  unfold opCcs
  have h0 := L.setAddrs s ver
  have h1 := lift_ccsConfigure L { s with addrs := ver }
  generalize ccsConfigure { s with addrs := ver } = r1 at h1 ⊢
  obtain ⟨s1, ev0⟩ := r1
  simp only at h1 ⊢
  have h2 := L.updateAll s1 (ccsTargets s1)
  generalize Pool.updateAll s1 (ccsTargets s1) = r2 at h2 ⊢
  obtain ⟨s2, ev1⟩ := r2
  simp only at h2 ⊢
  split
  · exact L.trans (L.trans (L.trans h0 h1) h2) (lift_enforce L s2 _ _)
  · exact L.trans (L.trans h0 h1) h2

theorem lift_getLeastBusy (L : LeavesA R) (s : St) (c : Cfg) (l : List Slot) : R s (getLeastBusy s c l).1 := by
  unfold getLeastBusy
  cases leastBusy s l with
  | none => exact L.refl s
  | some m =>
    simp only
    split
    · exact L.refl s
    · split
      · exact lift_newSubConn L s
      · exact L.refl s

theorem lift_chooseSlot (L : LeavesA R) (s : St) (c : Cfg) (l : List Slot) (key : String) :
    R s (chooseSlot s c l key).1 := by
  unfold chooseSlot
  split
  · have h1 := L.getReady s c key
    generalize getReadySubConnRef s c key = r at h1 ⊢
    obtain ⟨s1, o, b⟩ := r
    cases b with
    | true => exact h1
    | false => exact L.trans h1 (lift_getLeastBusy L s1 c l)
  · exact lift_getLeastBusy L s c l

theorem lift_finishPick (L : LeavesA R) (s : St) (r : Option Slot) (ev : List Event) (call : Nat) (cmd : Cmd)
    (loc : Loc) (key : String) (ctx : CtxKind) (dl : Option Int) :
    R s (finishPick s r ev call cmd loc key ctx dl).1 := by
  unfold finishPick
  cases r with
  | none => exact L.refl s
  | some slot =>
    simp only
    have := L.place s call slot cmd loc key ctx dl
    generalize Pool.place s call slot cmd loc key ctx dl = p at this ⊢
    obtain ⟨s1, o⟩ := p
    cases o <;> exact this

theorem lift_opPick (L : LeavesA R) (s : St) (call pn : Nat) (m : String) (ctx : CtxKind) (dl : Option Int)
    (req : Req) : R s (opPick s call pn m ctx dl req).1 := by
  unfold opPick
  split
  · exact L.refl s
  · cases s.published[pn]? with
    | none => exact L.refl s
    | some pub =>
      obtain ⟨st, p⟩ := pub
      cases p with
      | errTF => exact L.refl s
      | errNoSc => exact L.refl s
      | gcp l =>
        simp only
        cases s.cfg with
        | none => exact L.refl s
        | some c =>
          simp only
          split
          · exact L.refl s
          · generalize resolveCall c m ctx req = rc
            obtain ⟨cmd, loc, ok⟩ := rc
            cases ok with
            | none => exact L.refl s
            | some key =>
              simp only
              split
              · unfold pickRR
                split
                · exact L.refl s
                · simp only
                  split
                  · exact L.trans (L.setRr s) (lift_finishPick L _ _ _ _ _ _ _ _ _)
                  · exact L.trans (L.setRr s) (L.addWaiter _ _)
              · have h1 := lift_chooseSlot L s c l key
                generalize chooseSlot s c l key = r at h1 ⊢
                obtain ⟨s1, o, ev⟩ := r
                exact L.trans h1 (lift_finishPick L s1 _ _ _ _ _ _ _ _)

theorem lift_applyBindings (L : Leaves R) (s : St) (call : Call) (reply : Msg) : R s (applyBindings s call reply) := by
  unfold applyBindings
  cases call.cmd with
  | bound => exact L.refl s
  | unbind => exact L.unbind s _
  | bind =>
    simp only
    split
    · exact L.refl s
    · split
      · exact L.refl s
      · cases hg : getRef s call.slot with
        | none => exact L.refl s
        | some r => exact L.bindAll s _ call.slot r hg

theorem lift_detect (L : Leaves R) (s : St) (c : Cfg) (call : Call) (err : ErrKind) :
    R s (detectUnresponsive s c call err).1 := by
  unfold detectUnresponsive
  split
  · exact L.refl s
  · split
    · exact L.detReset s call.slot
    · cases getRef s call.slot with
      | none => exact L.refl s
      | some r =>
        simp only
        split
        · exact L.refl s
        · split
          · exact L.trans (L.deInc s call.slot) (L.refresh _ _)
          · exact L.deInc s call.slot

theorem lift_opDone (L : Leaves R) (s : St) (callId : Nat) (err : ErrKind) (reply : Msg) :
    R s (opDone s callId err reply).1 := by
  unfold opDone
  cases hf : s.calls.find? (fun c => c.id == callId) with
  | none => exact L.refl s
  | some call =>
    simp only
    cases s.cfg with
    | none => exact L.refl s
    | some c =>
      simp only
      have h1 := L.completeCall s call (List.mem_of_find?_eq_some hf)
      have h2 := lift_detect L (Pool.completeCall s call) c call err
      generalize detectUnresponsive (Pool.completeCall s call) c call err = r at h2 ⊢
      obtain ⟨s2, ev⟩ := r
      simp only at h2 ⊢
      split
      · exact L.trans h1 h2
      · exact L.trans (L.trans h1 h2) (lift_applyBindings L s2 call reply)

theorem lift_opCtxDone (L : LeavesA R) (s : St) (callId : Nat) : R s (opCtxDone s callId).1 := by
  unfold opCtxDone
  cases s.waiters.find? (fun w => w.id == callId) with
  | none => exact L.refl s
  | some w =>
    simp only
    have hp := L.trans (L.dropWaiter s callId) (L.place _ w.id w.slot .bind w.loc "" w.ctx w.dl)
    unfold placeWaiter
    generalize Pool.place { s with waiters := s.waiters.filter fun x => x.id != callId } w.id w.slot .bind w.loc "" w.ctx w.dl = r at hp ⊢
    obtain ⟨s1, o⟩ := r
    cases o <;> exact hp

theorem lift_wake (L : LeavesA R) (s : St) : R s (wakeWaiters s).1 := by
  unfold wakeWaiters
  suffices hs : ∀ (ws : List Waiter) (acc : St × List Event), R s acc.1 →
      R s (ws.foldl (fun (acc : St × List Event) w =>
        if slotReady acc.1 w.slot then
          match placeWaiter { acc.1 with waiters := acc.1.waiters.filter fun x => x.id != w.id } w with
          | (s, some sc) => (s, acc.2 ++ [.woke w.id sc])
          | (_, none) => acc
        else acc) acc).1 from hs s.waiters (s, []) (L.refl s)
  intro ws
  induction ws with
  | nil => intro acc h; exact h
  | cons w ws ih =>
    intro acc hacc
    simp only [List.foldl_cons]
    apply ih
    split
    · have hp := L.trans (L.trans hacc (L.dropWaiter acc.1 w.id)) (L.place _ w.id w.slot .bind w.loc "" w.ctx w.dl)
      unfold placeWaiter
      generalize Pool.place { acc.1 with waiters := acc.1.waiters.filter fun x => x.id != w.id } w.id w.slot .bind w.loc "" w.ctx w.dl = r at hp ⊢
      obtain ⟨s1, o⟩ := r
      cases o with
      | none => exact hacc
      | some sc => exact hp
    · exact hacc

theorem opScs_eq_report (s1 : St) (sc : Sc) (oldS st : CState) (order : List Slot) (ev0 : List Event) :
    (let (s, ev1) := recordState s1 sc st
     let s := cleanFallback s sc oldS st
     let oldAggr := s.aggr
     let s := recordTransition s oldS st
     let (s, ev2) := maybePublish s oldS st oldAggr order
     (s, ev0 ++ ev1 ++ ev2 ++ [Event.res "ok"])).1 = (report s1 sc oldS st order).1 := by
  unfold report
  rfl

theorem lift_opScs (L : Leaves R) (s : St) (sc : Sc) (st : CState) (order : List Slot) :
    R s (opScs s sc st order).1 := by
  unfold opScs
  have hpre : ∀ p, scsPrologue s sc st = some p → R s p.1 := by
    intro p hp
    unfold scsPrologue at hp
    cases hl : lookup s.refreshingMap sc with
    | none => simp [hl] at hp; subst hp; exact L.refl s
    | some slot =>
      simp only [hl] at hp
      split at hp
      · cases hp
      · cases hp; exact L.swap s sc slot hl
  cases hp : scsPrologue s sc st with
  | none => exact L.refl s
  | some p =>
    obtain ⟨s1, ev0⟩ := p
    have h1 := hpre (s1, ev0) hp
    simp only at h1 ⊢
    cases hst : stateOf s1 sc with
    | none => exact h1
    | some oldS =>
      simp only
      rw [opScs_eq_report s1 sc oldS st order ev0]
      exact L.trans h1 (L.report s1 sc oldS st order hst)

theorem lift_stepCore (L : Leaves R) (s : St) (op : Op) : R s (stepCore s op).1 := by
  cases op with
  | ccs ver => exact lift_opCcs L.toA s ver
  | reserr => exact L.refl s
  | scs sc st order => exact lift_opScs L s sc st order
  | factory n => exact L.setFail s n
  | adv ns => exact L.setNow s ns
  | pick call pn m ctx dl req => exact lift_opPick L.toA s call pn m ctx dl req
  | ctxdone call => exact lift_opCtxDone L.toA s call
  | done call err reply => exact lift_opDone L s call err reply
  | pickHold call pn m ctx dl req =>
    exact opPickHold_cases (R s) s call pn m ctx dl req (L.refl s) (fun hl => L.setHeld s hl)
      (lift_opPick L.toA s call pn m ctx dl req)
  | resume call =>
    exact opResume_cases (R s) s call (L.refl s) (fun hl => L.setHeld s hl)
      (fun hl _ _ _ => L.trans (L.setHeld s hl) (lift_newSubConn L.toA _))

/-- operations that neither complete a call nor report a connection state only use the `StagesA` -/
def quietOp : Op → Prop
  | .scs .. => False
  | .done .. => False
  | _ => True

theorem lift_quiet (L : LeavesA R) (s : St) (op : Op) (hq : quietOp op) : R s (step s op).1 := by
  have h1 : R s (stepCore s op).1 := by
    cases op with
    | ccs ver => exact lift_opCcs L s ver
    | reserr => exact L.refl s
    | scs sc st order => exact absurd hq (by simp [quietOp])
    | factory n => exact L.setFail s n
    | adv ns => exact L.setNow s ns
    | pick call pn m ctx dl req => exact lift_opPick L s call pn m ctx dl req
    | ctxdone call => exact lift_opCtxDone L s call
    | done call err reply => exact absurd hq (by simp [quietOp])
    | pickHold call pn m ctx dl req =>
      exact opPickHold_cases (R s) s call pn m ctx dl req (L.refl s) (fun hl => L.setHeld s hl)
        (lift_opPick L s call pn m ctx dl req)
    | resume call =>
      exact opResume_cases (R s) s call (L.refl s) (fun hl => L.setHeld s hl)
        (fun hl _ _ _ => L.trans (L.setHeld s hl) (lift_newSubConn L _))
  unfold step
  generalize stepCore s op = r at h1 ⊢
  obtain ⟨s1, ev⟩ := r
  have h2 := lift_wake L s1
  simp only at h1 h2 ⊢
  generalize wakeWaiters s1 = r2 at h2 ⊢
  obtain ⟨s2, ev2⟩ := r2
  exact L.trans h1 h2

/-- a relation that holds across every primitive stage holds across every operation -/
theorem lift_step (L : Leaves R) (s : St) (op : Op) : R s (step s op).1 := by
  have h1 := lift_stepCore L s op
  unfold step
  generalize stepCore s op = r at h1 ⊢
  obtain ⟨s1, ev⟩ := r
  have h2 := lift_wake L.toA s1
  simp only at h1 h2 ⊢
  generalize wakeWaiters s1 = r2 at h2 ⊢
  obtain ⟨s2, ev2⟩ := r2
  exact L.trans h1 h2

/-- … and across every history -/
theorem lift_run (L : Leaves R) (ops : List Op) : ∀ s, R s (ops.foldl (fun s op => (step s op).1) s) := by
  induction ops with
  | nil => intro s; exact L.refl s
  | cons op ops ih => intro s; exact L.trans (lift_step L s op) (ih _)

/-- an invariant kept by every primitive stage holds in every reachable state -/
theorem inv_run {I : St → Prop} (S : Stages (Keeps I)) (ci : CfgInput) (hi : I (init ci)) (ops : List Op) :
    I (run (init ci) ops) := lift_run (keeps_leaves S) ops _ hi

theorem inv_step {I : St → Prop} (S : Stages (Keeps I)) {s : St} (hi : I s) (op : Op) : I (step s op).1 :=
  lift_step (keeps_leaves S) s op hi

end GcpVerif.Pool
