/-
A MultiEndpoint without recovery timeout that is told about endpoints in an order in which no newly
available endpoint outranks one that is available already: its current endpoint is the top-priority
available one after every report — whatever its switching delay, because no switch is ever from an
available endpoint to a better one (the only switch that the delay defers).  This is what the status
update of UpdateMultiEndpoints relies on since F34 (Proofs/GME4.lean).
-/
import GcpVerif.Proofs.MEApi
namespace GcpVerif.ME

/-- no recovery timeout, nothing recovering, and `current` is the top available endpoint if there is one -/
structure Told (s : St) : Prop where
  r0 : s.r = 0
  norec : ∀ e ∈ s.eps, e.status ≠ .recovering
  top : ∀ t, topAvail s.eps = some t → s.current = t.id

theorem muc_id_of_told {s : St} (hi : Inv s) (h : Told s) : maybeUpdateCurrent s = s := by
  rw [muc_eq]
  obtain ⟨c, hc⟩ := hi.curMem
  rw [hc]
  cases ht : topAvail s.eps with
  | none => rfl
  | some t =>
    have hnr : c.status ≠ .recovering := h.norec c (findEp_some hc).1
    have hp : isProtected (some c) (some t) = false := by
      simp only [isProtected]
      cases hs : c.status <;> simp_all
    simp only [hp, Bool.false_eq_true, ↓reduceIte]
    simp [switchFromTo, h.top t ht]

/-- telling "unavailable" about an endpoint that is not available (or unknown) changes nothing -/
theorem tell_false_noop {s : St} (hi : Inv s) (h : Told s) (e : String)
    (hna : ∀ x, findEp s.eps e = some x → x.status ≠ .available) : opSetAvail s e false = s := by
  unfold opSetAvail setEndpointAvailability
  cases hf : findEp s.eps e with
  | none => exact muc_id_of_told hi h
  | some x =>
    have := hna x hf
    have hne : (x.status != .available) = true := by
      cases hs : x.status <;> simp_all
    simp only [Bool.false_eq_true, ↓reduceIte, hne]
    exact muc_id_of_told hi h

theorem tell_unknown {s : St} (hi : Inv s) (h : Told s) (e : String) (a : Bool)
    (hf : findEp s.eps e = none) : opSetAvail s e a = s := by
  unfold opSetAvail setEndpointAvailability
  rw [hf]
  exact muc_id_of_told hi h

theorem findEp_map_id (l : List Ep) (id : String) (f : Ep → Ep) (hf : ∀ y, (f y).id = y.id) :
    findEp (l.map f) id = (findEp l id).map f := by
  unfold findEp
  induction l with
  | nil => rfl
  | cons hd tl ih =>
    simp only [List.map_cons, List.find?_cons, hf]
    by_cases h : (hd.id == id) = true
    · simp [h]
    · have h' : (hd.id == id) = false := by simpa using h
      simp only [h', Bool.false_eq_true, ↓reduceIte]
      exact ih

/-- the table after `setStateEp s x .available` -/
theorem eps_setAvail (s : St) (x : Ep) :
    (setStateEp s x .available).eps = s.eps.map fun y => if y.id == x.id then touch .available s.now y else y := rfl

/-- telling "available" about an endpoint that does not outrank the top available one keeps `Told` -/
theorem tell_true {s : St} (hr : Reach s) (h : Told s) (e : String) (x : Ep) (hf : findEp s.eps e = some x)
    (hrank : ∀ t, topAvail s.eps = some t → t.prio ≤ x.prio) :
    Told (opSetAvail s e true) ∧
    ∀ y ∈ (opSetAvail s e true).eps, ∃ z ∈ s.eps, y.id = z.id ∧ y.prio = z.prio ∧
      (z.id = e → y.status = .available) ∧ (z.id ≠ e → y.status = z.status) := by
  have hi := reach_inv hr
  obtain ⟨hxm, hxid⟩ := findEp_some hf
  -- the state after the report, before maybeUpdateCurrent
  have hs1 : setEndpointAvailability s e true = setStateEp s x .available := by
    simp [setEndpointAvailability, hf]
  have hr1 : Reach (opSetAvail s e true) := Reach.stepRaw (.setAvail e true) hr
  have hi1 := reach_inv hr1
  have heps1 : (opSetAvail s e true).eps = s.eps.map fun y => if y.id == x.id then touch .available s.now y else y := by
    unfold opSetAvail; rw [(muc_fields _).1, hs1, eps_setAvail]
  have hr0 : (opSetAvail s e true).r = 0 := by
    unfold opSetAvail; rw [(muc_fields _).2.1, hs1]; exact h.r0
  -- every entry of the new table comes from one of the old one
  have hstat : ∀ y ∈ (opSetAvail s e true).eps, ∃ z ∈ s.eps, y.id = z.id ∧ y.prio = z.prio ∧
      (z.id = e → y.status = .available) ∧ (z.id ≠ e → y.status = z.status) := by
    intro y hy
    rw [heps1] at hy
    obtain ⟨z, hz, rfl⟩ := List.mem_map.mp hy
    refine ⟨z, hz, ?_, ?_, ?_, ?_⟩
    · split <;> rfl
    · split <;> rfl
    · intro hze
      have : (z.id == x.id) = true := by simp [hze, hxid]
      simp [this, touch]
    · intro hze
      have : (z.id == x.id) = false := by simp [hxid]; exact hze
      simp [this]
  refine ⟨⟨hr0, ?_, ?_⟩, hstat⟩
  · intro y hy
    obtain ⟨z, hz, _, _, h1, h2⟩ := hstat y hy
    by_cases hze : z.id = e
    · rw [h1 hze]; simp
    · rw [h2 hze]; exact h.norec z hz
  · -- `current` after the report is the top available endpoint
    intro t' ht'
    obtain ⟨ht'm, ht'a⟩ := topAvail_mem ht'
    -- the state before maybeUpdateCurrent
    let s1 := setStateEp s x .available
    have hs1eps : s1.eps = (opSetAvail s e true).eps := by rw [heps1]; rfl
    have htop1 : topAvail s1.eps = some t' := by rw [hs1eps]; exact ht'
    have hcur1 : s1.current = s.current := rfl
    have hres : opSetAvail s e true = maybeUpdateCurrent s1 := by unfold opSetAvail; rw [hs1]
    -- which entry of the old table is t'?
    obtain ⟨z, hz, hzid, hzprio, hz1, hz2⟩ := hstat t' ht'm
    -- current's entry in s1
    obtain ⟨c, hc⟩ := hi.curMem
    obtain ⟨hcm, hcid⟩ := findEp_some hc
    cases hpre : topAvail s.eps with
    | some t =>
      -- the old top stays on top: `current` does not move
      have hcurt : s.current = t.id := h.top t hpre
      obtain ⟨htm, hta⟩ := topAvail_mem hpre
      -- t is still available afterwards
      have ht_post : ∃ t2 ∈ (opSetAvail s e true).eps, t2.id = t.id ∧ t2.prio = t.prio ∧ t2.status = .available := by
        refine ⟨if t.id == x.id then touch .available s.now t else t, ?_, ?_, ?_, ?_⟩
        · rw [heps1]; exact List.mem_map.mpr ⟨t, htm, rfl⟩
        · split <;> rfl
        · split <;> rfl
        · split
          · rfl
          · exact hta
      obtain ⟨t2, ht2m, ht2id, ht2prio, ht2a⟩ := ht_post
      -- t' has the least priority number among the available: compare with t2, and t with z
      have h1 : t'.prio ≤ t2.prio := topAvail_min ht' t2 ht2m ht2a
      have h2 : t.prio ≤ z.prio := by
        by_cases hze : z.id = e
        · have : z = x := hi.idInj z hz x hxm (by rw [hze, hxid])
          rw [this]; exact hrank t hpre
        · have hza : z.status = .available := by rw [← hz2 hze]; exact ht'a
          exact topAvail_min hpre z hz hza
      have hsame : t'.id = t.id := by
        have hp : t'.prio = t2.prio := by omega
        have := hi1.prioInj t' ht'm t2 ht2m hp
        rw [this, ht2id]
      -- maybeUpdateCurrent finds current == top and does nothing
      rw [hres, muc_eq]
      have hc1 : ∃ c1, findEp s1.eps s1.current = some c1 := by
        have hinj1 : ∀ a ∈ s1.eps, ∀ b ∈ s1.eps, a.id = b.id → a = b := by rw [hs1eps]; exact hi1.idInj
        have ht'm1 : t' ∈ s1.eps := by rw [hs1eps]; exact ht'm
        exact ⟨t', by rw [hcur1, hcurt, ← hsame]; exact findEp_of_mem hinj1 ht'm1⟩
      obtain ⟨c1, hc1⟩ := hc1
      rw [hc1, htop1]
      have hc1id : c1.id = t'.id := by rw [(findEp_some hc1).2, hcur1, hcurt, hsame]
      have hnr : c1.status ≠ .recovering := by
        have hc1m : c1 ∈ (opSetAvail s e true).eps := hs1eps ▸ (findEp_some hc1).1
        obtain ⟨z1, hz1m, _, _, g1, g2⟩ := hstat c1 hc1m
        by_cases hze : z1.id = e
        · rw [g1 hze]; simp
        · rw [g2 hze]; exact h.norec z1 hz1m
      have hp : isProtected (some c1) (some t') = false := by
        simp only [isProtected]
        cases hs : c1.status <;> simp_all
      simp only [hp, Bool.false_eq_true, ↓reduceIte]
      have : s1.current = t'.id := by rw [hcur1, hcurt, hsame]
      simp [switchFromTo, this]
    | none =>
      -- nothing was available: the endpoint just reported is the only available one
      have hnone := topAvail_eq_none.mp hpre
      have hze : z.id = e := by
        by_cases hze : z.id = e
        · exact hze
        · exact absurd (by rw [← hz2 hze]; exact ht'a) (hnone z hz)
      have hzx : z = x := hi.idInj z hz x hxm (by rw [hze, hxid])
      rw [hres, muc_eq]
      have hc1 : findEp s1.eps s1.current = some (if c.id == x.id then touch .available s.now c else c) := by
        rw [hcur1]
        show findEp (s.eps.map fun y => if y.id == x.id then touch .available s.now y else y) s.current = _
        rw [findEp_map_id _ _ _ (fun y => by split <;> rfl), hc]
        rfl
      rw [hc1, htop1]
      by_cases hcx : c.id = x.id
      · -- current is the endpoint just reported
        have : (c.id == x.id) = true := by simp [hcx]
        simp only [this, ↓reduceIte]
        have hp : isProtected (some (touch .available s.now c)) (some t') = false := by simp [isProtected, touch]
        simp only [hp, Bool.false_eq_true, ↓reduceIte]
        have : s1.current = t'.id := by rw [hcur1, ← hcid, hcx, hzid, hzx]
        simp [switchFromTo, this]
      · have : (c.id == x.id) = false := by simpa using hcx
        simp only [this, Bool.false_eq_true, ↓reduceIte]
        have hcs : c.status = .unavailable := by
          have h1 := hnone c hcm
          have h2 := h.norec c hcm
          cases hs : c.status <;> simp_all
        have hp : isProtected (some c) (some t') = false := by simp [isProtected, hcs]
        simp only [hp, Bool.false_eq_true, ↓reduceIte]
        unfold switchFromTo
        split
        · rename_i heq; exact beq_iff_eq.mp heq
        · simp [goneOrUnavailable, hcs]

/-! ### a MultiEndpoint fresh from the constructor, without recovery timeout -/

theorem init_r {r d : Int} {l : List String} {s : St} (h : init r d l = some s) : s.r = max r 0 := by
  unfold init initRaw at h
  cases hl : l.eraseDups with
  | nil => rw [hl] at h; cases h
  | cons first rest =>
    rw [hl] at h
    simp only [Option.some.injEq] at h
    subst h
    exact (initLoop_fields _ _ _).2.1

theorem newEndpoint_r0 (s : St) (id : String) (p : Nat) (hr : s.r = 0) : (newEndpoint s id p).2.status ≠ .recovering := by
  unfold newEndpoint
  simp [hr]

theorem init_r0_not_recovering {d : Int} {l : List String} {s : St} (h : init 0 d l = some s) :
    ∀ e ∈ s.eps, e.status ≠ .recovering := by
  unfold init initRaw at h
  cases hl : l.eraseDups with
  | nil => rw [hl] at h; cases h
  | cons first rest =>
    rw [hl] at h
    simp only [Option.some.injEq] at h
    subst h
    suffices hgen : ∀ (l : List String) (s : St) (i : Nat), s.r = 0 → (∀ e ∈ s.eps, e.status ≠ .recovering) →
        ∀ e ∈ (initLoop s l i).eps, e.status ≠ .recovering from
      hgen _ _ _ (by simp) (by intro e he; cases he)
    intro l
    induction l with
    | nil => intro s i _ hs; simpa [initLoop] using hs
    | cons x xs ih =>
      intro s i hr hs
      rw [initLoop_cons]
      apply ih
      · simp only; rw [(newEndpoint_fields s x i).2.2.1]; exact hr
      · intro e he
        simp only [List.mem_append, List.mem_filter, List.mem_singleton] at he
        rcases he with he | he
        · rw [(newEndpoint_fields s x i).1] at he; exact hs e he.1
        · rw [he]; exact newEndpoint_r0 s x i hr

/-- a report changes no endpoint's identity or priority -/
theorem vw_opSetAvail (s : St) (e : String) (a : Bool) : vw (opSetAvail s e a) = vw s :=
  vw_step s (.setAvail e a) (fun _ h => by cases h)

end GcpVerif.ME
