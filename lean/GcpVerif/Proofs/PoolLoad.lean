/-
C02 at the level of one call, for every state: a call that is not keyed (no affinity key, or a key
nobody is bound to) and is not a round-robin BIND, issued on any published picker, is — if it is
placed at all — placed on a slot of *that picker's* ready list whose stream count is minimal among the
slots of that list; and every picker lists, at the moment it is published, exactly the pool slots
recorded READY (`published_lists_ready`).
-/
import GcpVerif.Proofs.PoolReady
namespace GcpVerif.Pool

/-- the least-loaded path never invents a slot: what it returns is the minimum of the list it was given -/
theorem getLeastBusy_spec {s : St} {c : Cfg} {l : List Slot} {s' : St} {m : Slot} {ev : List Event}
    (h : getLeastBusy s c l = (s', some m, ev)) :
    s' = s ∧ m ∈ l ∧ ∀ j ∈ l, streamsOf s m ≤ streamsOf s j := by
  unfold getLeastBusy at h
  cases hl : leastBusy s l with
  | none => rw [hl] at h; simp at h
  | some mn =>
    rw [hl] at h
    simp only at h
    have hsp := leastBusy_spec hl
    split at h
    · simp only [Prod.mk.injEq, Option.some.injEq] at h
      obtain ⟨h1, h2, -⟩ := h
      subst h1; subst h2
      exact ⟨rfl, hsp⟩
    · split at h
      · generalize newSubConn s = r at h
        obtain ⟨s1, ev1⟩ := r
        simp at h
      · simp only [Prod.mk.injEq, Option.some.injEq] at h
        obtain ⟨h1, h2, -⟩ := h
        subst h1; subst h2
        exact ⟨rfl, hsp⟩

theorem addSubConn_no_placed (s : St) : ∀ e ∈ (addSubConn s).2.2, ∀ x, e ≠ Event.placed x := by
  unfold addSubConn ccNewSubConn
  by_cases h1 : (s.addrs == 0) = true
  · simp [h1]
  · by_cases h2 : s.failN > 0
    · simp [h1, h2]
    · simp [h1, h2]

theorem newSubConn_no_placed (s : St) : ∀ e ∈ (newSubConn s).2, ∀ x, e ≠ Event.placed x := by
  unfold newSubConn
  split
  · intro e he; cases he
  · have := addSubConn_no_placed s
    generalize addSubConn s = r at this
    obtain ⟨s1, ok, ev⟩ := r
    exact this

theorem getLeastBusy_no_placed (s : St) (c : Cfg) (l : List Slot) :
    ∀ e ∈ (getLeastBusy s c l).2.2, ∀ x, e ≠ Event.placed x := by
  unfold getLeastBusy
  cases leastBusy s l with
  | none => intro e he; cases he
  | some mn =>
    simp only
    split
    · intro e he; cases he
    · split
      · have := newSubConn_no_placed s
        generalize newSubConn s = r2 at this
        obtain ⟨s2, ev2⟩ := r2
        exact this
      · intro e he; cases he

/-- **C02** an unkeyed call, or a call whose key is not bound, on the picker published as number `pn`
    (current or superseded): if it is placed, it is placed on the connection of a slot of that picker's
    ready list with the fewest active streams in that list — before the call itself is counted -/
theorem plain_pick_least_loaded {s : St} {c : Cfg} (hc : s.cfg = some c) (call pn : Nat) (m : String)
    (ctx : CtxKind) (dl : Option Int) (req : Req) {st : CState} {l : List Slot}
    (hp : s.published[pn]? = some (st, .gcp l))
    {cmd : Cmd} {loc : Loc} {key : String} (hrc : resolveCall c m ctx req = (cmd, loc, some key))
    (hrr : (cmd == .bind && c.rr) = false) (hkey : key = "" ∨ lookup s.affinity key = none)
    {sc : Sc} (hplaced : .placed sc ∈ (opPick s call pn m ctx dl req).2) :
    ∃ slot ∈ l, (∀ j ∈ l, streamsOf s slot ≤ streamsOf s j) ∧ subAt s slot = some sc := by
  unfold opPick at hplaced
  split at hplaced
  · simp at hplaced
  · simp only [hp, hc] at hplaced
    split at hplaced
    · simp at hplaced
    · simp only [hrc, hrr, Bool.false_eq_true, ↓reduceIte] at hplaced
      have hcs : chooseSlot s c l key = getLeastBusy s c l := by
        unfold chooseSlot
        rcases hkey with hk | hk
        · subst hk; simp
        · by_cases hke : key = ""
          · subst hke; simp
          · have : (key != "") = true := by simpa using hke
            simp only [this, ↓reduceIte]
            have : getReadySubConnRef s c key = (s, none, false) := unknown_key hk
            rw [this]
      rw [hcs] at hplaced
      have hnp := getLeastBusy_no_placed s c l
      generalize hg : getLeastBusy s c l = r at hplaced hnp
      obtain ⟨s1, o, ev⟩ := r
      simp only at hnp
      cases o with
      | none =>
        simp only [finishPick, List.mem_append, List.mem_singleton] at hplaced
        rcases hplaced with h1 | h1
        · exact absurd rfl (hnp _ h1 sc)
        · cases h1
      | some slot =>
        obtain ⟨hs1, hmem, hmin⟩ := getLeastBusy_spec hg
        subst hs1
        simp only [finishPick, place] at hplaced
        cases hgr : getRef s1 slot with
        | none =>
          rw [hgr] at hplaced
          simp only [List.mem_append, List.mem_singleton] at hplaced
          rcases hplaced with h1 | h1
          · exact absurd rfl (hnp _ h1 sc)
          · cases h1
        | some r =>
          rw [hgr] at hplaced
          simp only [List.mem_append, List.mem_singleton, Event.placed.injEq] at hplaced
          rcases hplaced with h1 | h1
          · exact absurd rfl (hnp _ h1 sc)
          · refine ⟨slot, hmem, hmin, ?_⟩
            rw [h1]; exact getRef_subAt hgr

/-- **C02** every picker lists, at the moment it is published, exactly the pool slots whose connection is
    recorded READY then (a published pair is the last one right after its publication) -/
theorem published_lists_ready (ci : CfgInput) (ops : List Op) (st : CState) (l : List Slot)
    (hq : (run (init ci) ops).published.getLast? = some (st, .gcp l)) :
    l.Perm (readySlots (run (init ci) ops)) := by
  have h2 := (published_matches_pool ci ops (st, .gcp l) hq).2
  exact rdy_run ci ops l h2.symm

/-- the stream count of an existing slot is the number of calls in flight that were placed on it -/
theorem streamsOf_eq_inflight (ci : CfgInput) (ops : List Op) (j : Slot) (hj : j < (run (init ci) ops).refs.length) :
    streamsOf (run (init ci) ops) j = ((((run (init ci) ops).calls.map (·.slot)).filter (· == j)).length : Int) := by
  have h := streams_exact ci ops
  generalize run (init ci) ops = s at h hj
  simp only [streamsExact, List.all_eq_true, List.mem_range] at h
  have := h j hj
  unfold streamsOf getRef
  cases hr : s.refs[j]? with
  | none =>
    rw [List.getElem?_eq_none_iff] at hr
    exact absurd hj (Nat.not_lt.mpr hr)
  | some r =>
    rw [hr] at this
    simpa using this

/-- **C03 (reach level)** after any history, the plain-pick path adds a channel only if every channel of
    the ready list it scans — and every READY channel of the pool, F37 — really carries at least `watermark` calls whose completion has not run
    (the count is taken from the history of placements and completions, not from a counter), the pool
    is below maxSize and no connection is idle or connecting — and then the call is told to wait -/
theorem growth_needs_real_load (ci : CfgInput) (ops : List Op) {s' : St} {c : Cfg} {l : List Slot}
    {r : Option Slot} {ev : List Event}
    (h : getLeastBusy (run (init ci) ops) c l = (s', r, ev)) (hev : ev ≠ []) :
    r = none ∧
    (∀ j ∈ l, j < (run (init ci) ops).refs.length →
      c.wm ≤ (((run (init ci) ops).calls.map (·.slot)).filter (· == j)).length) ∧
    (c.max = 0 ∨ (run (init ci) ops).scRefs.length < c.max) ∧
    (run (init ci) ops).scStates.any (fun p => p.2 == .connecting || p.2 == .idle) = false ∧
    -- (F37) … and so does every READY channel of the pool, listed by the picker that was used or not
    ((run (init ci) ops).cfg = some c → ∀ j r, (run (init ci) ops).refs[j]? = some r →
      lookup (run (init ci) ops).scStates r.subConn = some .ready →
      c.wm ≤ (((run (init ci) ops).calls.map (·.slot)).filter (· == j)).length) := by
  obtain ⟨h1, h2, h3, h4, h5⟩ := growth_only_when_saturated h hev
  refine ⟨h1, ?_, h3, h4, ?_⟩
  · intro j hj hlt
    have := h2 j hj
    rw [streamsOf_eq_inflight ci ops j hlt] at this
    exact_mod_cast this
  · intro hc j r hr hst
    have hlt : j < (run (init ci) ops).refs.length := (List.getElem?_eq_some_iff.mp hr).1
    have hsat := all_ready_saturated hc h5 r (List.mem_of_getElem? hr) hst
    have hso : streamsOf (run (init ci) ops) j = r.streamsCnt := by simp [streamsOf, getRef, hr]
    rw [← hso, streamsOf_eq_inflight ci ops j hlt] at hsat
    exact_mod_cast hsat

end GcpVerif.Pool
