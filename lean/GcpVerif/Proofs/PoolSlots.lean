/-
Pool connections and slots are in bijection (helper invariant for C01, C03 and C07).

gRPC's side of the contract enters here: a Shutdown report is delivered only for a connection the
balancer has removed (`contractOk`).  Known finding K6 is what happens outside it.
-/
import GcpVerif.Proofs.PoolValid
namespace GcpVerif.Pool

/-- the connection currently held by a slot -/
def subAt (s : St) (slot : Slot) : Option Sc := (s.refs[slot]?).map (·.subConn)

structure Bij (s : St) : Prop where
  slotOf : ∀ slot sc, subAt s slot = some sc → lookup s.scRefs sc = some slot
  refOf : ∀ sc slot, lookup s.scRefs sc = some slot → subAt s slot = some sc
  lenEq : s.scRefs.length = s.refs.length

/-- the stage leaves the slot table alone and replaces no slot's connection -/
def SameB (s s' : St) : Prop :=
  s'.scRefs = s.scRefs ∧ s'.refs.length = s.refs.length ∧ ∀ slot, subAt s' slot = subAt s slot

theorem SameB.refl (s : St) : SameB s s := ⟨rfl, rfl, fun _ => rfl⟩
theorem SameB.trans {a b c : St} (h1 : SameB a b) (h2 : SameB b c) : SameB a c :=
  ⟨h2.1.trans h1.1, h2.2.1.trans h1.2.1, fun slot => (h2.2.2 slot).trans (h1.2.2 slot)⟩

theorem bij_of_same {s s' : St} (h : Bij s) (e : SameB s s') : Bij s' := by
  obtain ⟨e1, e2, e3⟩ := e
  constructor
  · intro slot sc hs; rw [e3] at hs; rw [e1]; exact h.slotOf slot sc hs
  · intro sc slot hl; rw [e1] at hl; rw [e3]; exact h.refOf sc slot hl
  · rw [e1, e2]; exact h.lenEq

theorem subAt_modRef (s : St) (i : Slot) (f : RefSt → RefSt) (hf : ∀ r, (f r).subConn = r.subConn) (j : Slot) :
    subAt (modRef s i f) j = subAt s j := by
  unfold subAt modRef
  simp only [List.getElem?_modify]
  cases s.refs[j]? with
  | none => rfl
  | some r =>
    by_cases hij : i = j
    · simp [hij, hf r]
    · simp [hij]

theorem sameB_modRef (s : St) (i : Slot) (f : RefSt → RefSt) (hf : ∀ r, (f r).subConn = r.subConn) :
    SameB s (modRef s i f) :=
  ⟨rfl, modRef_len s i f, subAt_modRef s i f hf⟩

theorem length_erase_mem {β : Type} {l : List (Sc × β)} (hnd : (keys l).Nodup) {k : Sc} (hk : k ∈ keys l) :
    (erase l k).length + 1 = l.length := by
  induction l with
  | nil => simp [keys] at hk
  | cons p l ih =>
    simp only [keys_cons, List.nodup_cons] at hnd
    by_cases hp : p.1 = k
    · have hbeq : (p.1 == k) = true := by simpa using hp
      have hnot : k ∉ keys l := by rw [← hp]; exact hnd.1
      have herase : erase (p :: l) k = l := by
        unfold erase
        simp only [List.filter_cons, hbeq, Bool.not_true, Bool.false_eq_true, ↓reduceIte]
        rw [List.filter_eq_self]
        intro q hq
        have : q.1 ≠ k := fun heq => hnot (by rw [← heq]; exact List.mem_map_of_mem (f := (·.1)) hq)
        simpa using this
      rw [herase]; rfl
    · have hbeq : (p.1 == k) = false := by simpa using hp
      have hk' : k ∈ keys l := by
        simp only [keys_cons, List.mem_cons] at hk
        rcases hk with h | h
        · exact absurd h.symm hp
        · exact h
      have herase : erase (p :: l) k = p :: erase l k := by
        unfold erase; simp [List.filter_cons, hbeq]
      rw [herase]
      simp only [List.length_cons]
      rw [ih hnd.2 hk']

theorem length_insert_fresh {β : Type} {l : List (Sc × β)} {k : Sc} (hk : k ∉ keys l) (v : β) :
    (insert l k v).length = l.length + 1 := by
  rw [insert_of_not_mem hk]; simp

/-! ### creating connections -/

theorem ccNew_fields (s : St) :
    (ccNewSubConn s).1.scRefs = s.scRefs ∧ (ccNewSubConn s).1.refs = s.refs ∧ (ccNewSubConn s).1.cfg = s.cfg ∧
    (ccNewSubConn s).1.cfgIn = s.cfgIn ∧ (ccNewSubConn s).1.affinity = s.affinity ∧ (ccNewSubConn s).1.fallback = s.fallback ∧
    (ccNewSubConn s).1.scStates = s.scStates ∧ (ccNewSubConn s).1.refreshingMap = s.refreshingMap ∧
    ∀ sc, (ccNewSubConn s).2.1 = some sc → sc = s.nextSc := by
  unfold ccNewSubConn
  split
  · exact ⟨rfl, rfl, rfl, rfl, rfl, rfl, rfl, rfl, fun _ h => by cases h⟩
  · split
    · exact ⟨rfl, rfl, rfl, rfl, rfl, rfl, rfl, rfl, fun _ h => by cases h⟩
    · exact ⟨rfl, rfl, rfl, rfl, rfl, rfl, rfl, rfl, fun sc h => by simp only [Option.some.injEq] at h; exact h.symm⟩

theorem fresh_not_key {s : St} (t : Tables s) : s.nextSc ∉ keys s.scRefs := by
  intro hk
  have := t.freshS _ ((t.keysEq _).mpr hk)
  exact Nat.lt_irrefl _ this

theorem bij_addSubConn {s : St} (h : Bij s) (t : Tables s) : Bij (addSubConn s).1 := by
  unfold addSubConn
  have hf := ccNew_fields s
  generalize ccNewSubConn s = r at hf ⊢
  obtain ⟨s1, o, ev⟩ := r
  obtain ⟨e1, e2, -, -, -, -, -, -, e9⟩ := hf
  simp only at e1 e2 e9
  have h1 : Bij s1 := bij_of_same h ⟨e1, by rw [e2], fun slot => by unfold subAt; rw [e2]⟩
  cases o with
  | none => exact h1
  | some sc =>
    have hsc : sc = s.nextSc := e9 sc rfl
    have hfresh : sc ∉ keys s1.scRefs := by rw [e1, hsc]; exact fresh_not_key t
    simp only
    constructor
    · intro slot x hs
      simp only [subAt] at hs
      by_cases hlt : slot < s1.refs.length
      · rw [List.getElem?_append_left hlt] at hs
        have hx := h1.slotOf slot x hs
        have hxk : x ∈ keys s1.scRefs := lookup_isSome.mp (by rw [hx]; rfl)
        have hne : sc ≠ x := fun heq => hfresh (heq ▸ hxk)
        simp only [lookup_insert, hne, ↓reduceIte]
        exact hx
      · have hge : s1.refs.length ≤ slot := Nat.le_of_not_lt hlt
        rw [List.getElem?_append_right hge] at hs
        cases hd : slot - s1.refs.length with
        | zero =>
          rw [hd] at hs
          simp only [List.getElem?_cons_zero, Option.map_some, Option.some.injEq] at hs
          subst hs
          have : slot = s1.refs.length := Nat.le_antisymm (Nat.le_of_sub_eq_zero hd) hge
          simp only [lookup_insert, ↓reduceIte, this]
        | succ n => rw [hd] at hs; simp at hs
    · intro x slot hl
      simp only [lookup_insert] at hl
      simp only [subAt]
      by_cases hx : sc = x
      · simp only [hx, ↓reduceIte, Option.some.injEq] at hl
        subst hl; subst hx
        simp
      · simp only [hx, ↓reduceIte] at hl
        have := h1.refOf x slot hl
        simp only [subAt] at this
        have hlt : slot < s1.refs.length := by
          cases hg : s1.refs[slot]? with
          | none => rw [hg] at this; cases this
          | some r => exact (List.getElem?_eq_some_iff.mp hg).1
        rw [List.getElem?_append_left hlt]; exact this
    · simp only [List.length_append, List.length_cons, List.length_nil]
      rw [length_insert_fresh hfresh, h1.lenEq]

/-! ### the swap -/

def swapRef (s : St) (sc : Sc) (r : RefSt) : RefSt :=
  { r with subConn := sc, deCalls := 0, lastResp := s.now, refreshing := false, refreshCnt := r.refreshCnt + 1 }

theorem swap_fields {s : St} {sc : Sc} {slot : Slot} {r : RefSt} (hg : getRef s slot = some r) :
    (swap s sc slot).1.scRefs = insert (erase s.scRefs r.subConn) sc slot ∧
    (swap s sc slot).1.refs = s.refs.modify slot (swapRef s sc) ∧
    (swap s sc slot).1.affinity = repoint s.affinity r.subConn sc ∧
    (swap s sc slot).1.fallback = repoint s.fallback r.subConn sc ∧
    (swap s sc slot).1.refreshingMap = erase s.refreshingMap sc ∧
    (swap s sc slot).1.scStates = insert (erase s.scStates r.subConn) sc ((stateOf s r.subConn).getD .idle) ∧
    (swap s sc slot).1.cfg = s.cfg ∧ (swap s sc slot).1.cfgIn = s.cfgIn ∧
    (swap s sc slot).1.calls = s.calls ∧ (swap s sc slot).1.waiters = s.waiters := by
  unfold swap
  rw [hg]
  exact ⟨rfl, rfl, rfl, rfl, rfl, rfl, rfl, rfl, rfl, rfl⟩

theorem bij_swap {s : St} (h : Bij s) (t : Tables s) (sc : Sc) (slot : Slot) (hrep : sc ∈ keys s.refreshingMap) :
    Bij (swap s sc slot).1 := by
  cases hg : getRef s slot with
  | none => unfold swap; rw [hg]; exact h
  | some r =>
    obtain ⟨f1, f2, -⟩ := swap_fields (sc := sc) hg
    generalize (swap s sc slot).1 = s' at f1 f2 ⊢
    have hlt : slot < s.refs.length := getRef_some_ok hg
    have hold : subAt s slot = some r.subConn := by unfold subAt; unfold getRef at hg; rw [hg]; rfl
    have hlo : lookup s.scRefs r.subConn = some slot := h.slotOf slot _ hold
    have holdk : r.subConn ∈ keys s.scRefs := lookup_isSome.mp (by rw [hlo]; rfl)
    have hfresh : sc ∉ keys s.scRefs := fun hk => (t.freshF sc hrep).2 ((t.keysEq sc).mpr hk)
    have hsub : ∀ j, subAt s' j = if slot = j then some sc else subAt s j := by
      intro j
      simp only [subAt, f2, List.getElem?_modify]
      by_cases hj : slot = j
      · subst hj
        unfold getRef at hg
        simp [hg, swapRef]
      · cases s.refs[j]? <;> simp [hj]
    constructor
    · intro j x hs
      rw [hsub j] at hs
      rw [f1]
      by_cases hj : slot = j
      · simp only [hj, ↓reduceIte, Option.some.injEq] at hs
        subst hs; subst hj
        exact lookup_insert_self _ _ _
      · simp only [hj, ↓reduceIte] at hs
        have hx := h.slotOf j x hs
        have hxk : x ∈ keys s.scRefs := lookup_isSome.mp (by rw [hx]; rfl)
        have hx1 : sc ≠ x := fun heq => hfresh (heq ▸ hxk)
        have hx2 : r.subConn ≠ x := fun heq => by
          rw [← heq, hlo] at hx
          exact hj (Option.some.inj hx)
        rw [lookup_insert_ne _ _ hx1, lookup_erase_ne _ hx2]
        exact hx
    · intro x j hl
      rw [hsub j]
      rw [f1] at hl
      by_cases hx : sc = x
      · subst hx
        rw [lookup_insert_self] at hl
        simp only [Option.some.injEq] at hl
        simp [hl]
      · rw [lookup_insert_ne _ _ hx] at hl
        by_cases hx2 : r.subConn = x
        · rw [← hx2, lookup_erase_self] at hl; cases hl
        · rw [lookup_erase_ne _ hx2] at hl
          have hj : slot ≠ j := fun heq => by
            have := h.refOf x j hl
            rw [← heq, hold] at this
            exact hx2 (Option.some.inj this)
          simp only [hj, ↓reduceIte]
          exact h.refOf x j hl
    · rw [f1, f2]
      have hnk : sc ∉ keys (erase s.scRefs r.subConn) := fun hk => hfresh (mem_keys_erase hk)
      rw [length_insert_fresh hnk, length_erase_mem t.ndR holdk, List.length_modify]
      exact h.lenEq

/-! ### stages that touch neither the slot table nor any slot's connection -/

def SameC (s s' : St) : Prop := SameB s s' ∧ s'.cfg = s.cfg ∧ s'.cfgIn = s.cfgIn

theorem SameC.refl (s : St) : SameC s s := ⟨SameB.refl s, rfl, rfl⟩
theorem SameC.trans {a b c : St} (h1 : SameC a b) (h2 : SameC b c) : SameC a c :=
  ⟨h1.1.trans h2.1, h2.2.1.trans h1.2.1, h2.2.2.trans h1.2.2⟩

theorem sameC_modRef (s : St) (i : Slot) (f : RefSt → RefSt) (hf : ∀ r, (f r).subConn = r.subConn) :
    SameC s (modRef s i f) := ⟨sameB_modRef s i f hf, rfl, rfl⟩

theorem sameC_ccNew (s : St) : SameC s (ccNewSubConn s).1 := by
  unfold ccNewSubConn; split
  · exact SameC.refl s
  · split <;> exact ⟨⟨rfl, rfl, fun _ => rfl⟩, rfl, rfl⟩

theorem sameC_refresh (s : St) (slot : Slot) : SameC s (refresh s slot).1 := by
  unfold refresh
  cases getRef s slot with
  | none => exact SameC.refl s
  | some r =>
    simp only
    split
    · exact SameC.refl s
    · have h2 := sameC_ccNew (modRef s slot fun r => { r with refreshing := true })
      generalize ccNewSubConn (modRef s slot fun r => { r with refreshing := true }) = rr at h2 ⊢
      obtain ⟨s1, o, ev⟩ := rr
      cases o with
      | none => exact ((sameC_modRef s slot (fun r => { r with refreshing := true }) (fun _ => rfl)).trans h2).trans (sameC_modRef s1 slot (fun r => { r with refreshing := false }) (fun _ => rfl))
      | some sc => exact ((sameC_modRef s slot (fun r => { r with refreshing := true }) (fun _ => rfl)).trans h2).trans ⟨⟨rfl, rfl, fun _ => rfl⟩, rfl, rfl⟩

theorem sameC_updateAll (s : St) (scs : List Sc) : SameC s (updateAll s scs).1 := by
  unfold updateAll
  suffices h : ∀ (acc : St × List Event), SameC s acc.1 →
      SameC s (scs.foldl (fun (acc : St × List Event) sc =>
        ({ acc.1 with scAddrs := insert acc.1.scAddrs sc acc.1.addrs }, acc.2 ++ [.upd sc acc.1.addrs, .connect sc])) acc).1 from
    h (s, []) (SameC.refl s)
  induction scs with
  | nil => intro acc h; exact h
  | cons x xs ih => intro acc h; simp only [List.foldl_cons]; exact ih _ (h.trans ⟨⟨rfl, rfl, fun _ => rfl⟩, rfl, rfl⟩)

theorem sameC_place (s : St) (call : Nat) (slot : Slot) (cmd : Cmd) (loc : Loc) (key : String) (ctx : CtxKind)
    (dl : Option Int) : SameC s (place s call slot cmd loc key ctx dl).1 := by
  unfold place
  cases getRef s slot with
  | none => exact SameC.refl s
  | some r =>
    exact (sameC_modRef s slot (fun r => { r with streamsCnt := r.streamsCnt + 1 }) (fun _ => rfl)).trans
      ⟨⟨rfl, rfl, fun _ => rfl⟩, rfl, rfl⟩

theorem sameC_getReady (s : St) (c : Cfg) (key : String) : SameC s (getReadySubConnRef s c key).1 := by
  unfold getReadySubConnRef
  repeat' split
  all_goals exact ⟨⟨rfl, rfl, fun _ => rfl⟩, rfl, rfl⟩

theorem sameC_finishPick (s : St) (r : Option Slot) (ev : List Event) (call : Nat) (cmd : Cmd) (loc : Loc)
    (key : String) (ctx : CtxKind) (dl : Option Int) : SameC s (finishPick s r ev call cmd loc key ctx dl).1 := by
  unfold finishPick
  cases r with
  | none => exact SameC.refl s
  | some slot =>
    simp only
    have := sameC_place s call slot cmd loc key ctx dl
    generalize place s call slot cmd loc key ctx dl = p at this ⊢
    obtain ⟨s1, o⟩ := p
    cases o <;> exact this

theorem sameC_bump (s : St) (sc : Sc) (d : Int) : SameC s (bumpAffinity s sc d) := by
  unfold bumpAffinity; split
  · exact sameC_modRef _ _ _ (fun _ => rfl)
  · exact SameC.refl s

theorem sameC_bind (s : St) (k : String) (sc : Sc) : SameC s (bindSubConn s k sc) := by
  unfold bindSubConn
  refine SameC.trans ?_ (sameC_bump _ sc 1)
  unfold addBinding; split <;> exact ⟨⟨rfl, rfl, fun _ => rfl⟩, rfl, rfl⟩

theorem sameC_foldl_bind (keys : List String) (sc : Sc) (s : St) :
    SameC s (keys.foldl (fun s k => bindSubConn s k sc) s) := by
  induction keys generalizing s with
  | nil => exact SameC.refl s
  | cons k ks ih => exact (sameC_bind s k sc).trans (ih _)

theorem sameC_applyBindings (s : St) (call : Call) (reply : Msg) : SameC s (applyBindings s call reply) := by
  unfold applyBindings
  cases call.cmd with
  | bound => exact SameC.refl s
  | unbind =>
    simp only
    unfold unbindSubConn
    cases lookup s.affinity call.boundKey with
    | none => exact SameC.refl s
    | some sc => exact (sameC_bump s sc (-1)).trans ⟨⟨rfl, rfl, fun _ => rfl⟩, rfl, rfl⟩
  | bind =>
    simp only
    split
    · exact SameC.refl s
    · split
      · exact SameC.refl s
      · split
        · exact SameC.refl s
        · exact sameC_foldl_bind _ _ s

theorem sameC_detect (s : St) (c : Cfg) (call : Call) (err : ErrKind) : SameC s (detectUnresponsive s c call err).1 := by
  unfold detectUnresponsive
  split
  · exact SameC.refl s
  · split
    · exact sameC_modRef _ _ _ (fun _ => rfl)
    · cases getRef s call.slot with
      | none => exact SameC.refl s
      | some r =>
        simp only
        split
        · exact SameC.refl s
        · split
          · exact (sameC_modRef s call.slot (fun r => { r with deCalls := satInc r.deCalls }) (fun _ => rfl)).trans (sameC_refresh _ _)
          · exact sameC_modRef _ _ _ (fun _ => rfl)

theorem sameC_opDone (s : St) (callId : Nat) (err : ErrKind) (reply : Msg) : SameC s (opDone s callId err reply).1 := by
  unfold opDone
  cases s.calls.find? (fun c => c.id == callId) with
  | none => exact SameC.refl s
  | some call =>
    simp only
    cases s.cfg with
    | none => exact SameC.refl s
    | some c =>
      simp only
      have h1 : SameC s (completeCall s call) := by
        unfold completeCall
        exact (show SameC s { s with calls := s.calls.filter fun c => c.id != call.id } from ⟨⟨rfl, rfl, fun _ => rfl⟩, rfl, rfl⟩).trans
          (sameC_modRef _ _ _ (fun _ => rfl))
      have h2 := sameC_detect (completeCall s call) c call err
      generalize detectUnresponsive (completeCall s call) c call err = r at h2 ⊢
      obtain ⟨s2, ev⟩ := r
      simp only at h2 ⊢
      split
      · exact h1.trans h2
      · exact (h1.trans h2).trans (sameC_applyBindings s2 call reply)

theorem sameC_opCtxDone (s : St) (callId : Nat) : SameC s (opCtxDone s callId).1 := by
  unfold opCtxDone
  cases s.waiters.find? (fun w => w.id == callId) with
  | none => exact SameC.refl s
  | some w =>
    simp only
    have hp := (show SameC s { s with waiters := s.waiters.filter fun x => x.id != callId } from ⟨⟨rfl, rfl, fun _ => rfl⟩, rfl, rfl⟩).trans
      (sameC_place _ w.id w.slot .bind w.loc "" w.ctx w.dl)
    unfold placeWaiter
    generalize place { s with waiters := s.waiters.filter fun x => x.id != callId } w.id w.slot .bind w.loc "" w.ctx w.dl = r at hp ⊢
    obtain ⟨s1, o⟩ := r
    cases o <;> exact hp

theorem sameC_wake (s : St) : SameC s (wakeWaiters s).1 := by
  unfold wakeWaiters
  suffices hs : ∀ (ws : List Waiter) (acc : St × List Event), SameC s acc.1 →
      SameC s (ws.foldl (fun (acc : St × List Event) w =>
        if slotReady acc.1 w.slot then
          match placeWaiter { acc.1 with waiters := acc.1.waiters.filter fun x => x.id != w.id } w with
          | (s, some sc) => (s, acc.2 ++ [.woke w.id sc])
          | (_, none) => acc
        else acc) acc).1 from hs s.waiters (s, []) (SameC.refl s)
  intro ws
  induction ws with
  | nil => intro acc h; exact h
  | cons w ws ih =>
    intro acc hacc
    simp only [List.foldl_cons]
    apply ih
    split
    · have hp := (hacc.trans (show SameC acc.1 { acc.1 with waiters := acc.1.waiters.filter fun x => x.id != w.id } from ⟨⟨rfl, rfl, fun _ => rfl⟩, rfl, rfl⟩)).trans
        (sameC_place _ w.id w.slot .bind w.loc "" w.ctx w.dl)
      unfold placeWaiter
      generalize place { acc.1 with waiters := acc.1.waiters.filter fun x => x.id != w.id } w.id w.slot .bind w.loc "" w.ctx w.dl = r at hp ⊢
      obtain ⟨s1, o⟩ := r
      cases o with
      | none => exact hacc
      | some sc => exact hp
    · exact hacc


theorem sameC_recordState (s : St) (sc : Sc) (st : CState) (hst : st ≠ .shutdown) : SameC s (recordState s sc st).1 := by
  unfold recordState
  cases st
  case shutdown => exact absurd rfl hst
  all_goals exact ⟨⟨rfl, rfl, fun _ => rfl⟩, rfl, rfl⟩

theorem sameC_cleanFallback (s : St) (sc : Sc) (a b : CState) : SameC s (cleanFallback s sc a b) := by
  unfold cleanFallback
  simp only
  split <;> split <;> exact ⟨⟨rfl, rfl, fun _ => rfl⟩, rfl, rfl⟩

theorem sameC_recordTransition (s : St) (a b : CState) : SameC s (recordTransition s a b) := by
  unfold recordTransition updCounter
  cases a <;> cases b <;> exact ⟨⟨rfl, rfl, fun _ => rfl⟩, rfl, rfl⟩

theorem sameC_maybePublish (s : St) (a b c : CState) (o : List Slot) : SameC s (maybePublish s a b c o).1 := by
  unfold maybePublish
  split
  · unfold regeneratePicker
    split <;> exact ⟨⟨rfl, rfl, fun _ => rfl⟩, rfl, rfl⟩
  · exact SameC.refl s

/-! ### the invariant -/

/-- gRPC reports Shutdown only for a connection the balancer has already removed -/
def contractOk (s : St) : Op → Prop
  | .scs sc .shutdown _ => lookup s.scStates sc = none
  | _ => True

structure Pool1 (ci : CfgInput) (s : St) : Prop where
  cin : s.cfgIn = ci
  bij : Bij s
  tab : Tables s
  cfgOk : s.cfg = none ∨ s.cfg = some (initialCfg s.cfgIn)
  size : (initialCfg s.cfgIn).min ≤ (initialCfg s.cfgIn).max → s.scRefs.length ≤ (initialCfg s.cfgIn).max

variable {ci : CfgInput}

theorem initialCfg_max_pos (ci : CfgInput) : 1 ≤ (initialCfg ci).max := by
  cases ci with
  | given c =>
    simp only [initialCfg, effective]
    split
    · decide
    · rename_i h; have : c.max ≠ 0 := by simpa using h
      omega
  | absent => decide

theorem pool1_of_same {s s' : St} (h : Pool1 ci s) (e : SameC s s') (t' : Tables s') : Pool1 ci s' := by
  obtain ⟨eb, ec, ei⟩ := e
  refine ⟨ei.trans h.cin, bij_of_same h.bij eb, t', ?_, ?_⟩
  · rw [ec, ei]; exact h.cfgOk
  · rw [ei, eb.1]; exact h.size

theorem addSubConn_fields (s : St) :
    (addSubConn s).1.cfg = s.cfg ∧ (addSubConn s).1.cfgIn = s.cfgIn ∧
    (addSubConn s).1.scRefs.length ≤ s.scRefs.length + 1 := by
  unfold addSubConn
  have hf := ccNew_fields s
  generalize ccNewSubConn s = r at hf ⊢
  obtain ⟨s1, o, ev⟩ := r
  obtain ⟨e1, -, e3, e4, -⟩ := hf
  simp only at e1 e3 e4
  cases o with
  | none => exact ⟨e3, e4, by simp only; rw [e1]; exact Nat.le_succ _⟩
  | some sc =>
    refine ⟨e3, e4, ?_⟩
    simp only
    rw [← e1]
    unfold insert
    split
    · simp
    · simp

/-- `minSize ≤ maxSize` for the effective configuration -/
def MM (s : St) : Prop := (initialCfg s.cfgIn).min ≤ (initialCfg s.cfgIn).max

/-- adding a connection while (if `minSize ≤ maxSize`) the pool is below `maxSize` -/
theorem pool1_addSubConn {s : St} (h : Pool1 ci s) (hroom : MM s → s.scRefs.length < (initialCfg s.cfgIn).max) :
    Pool1 ci (addSubConn s).1 := by
  obtain ⟨f1, f2, f3⟩ := addSubConn_fields s
  refine ⟨f2.trans h.cin, bij_addSubConn h.bij h.tab, tables_addSubConn h.tab, ?_, ?_⟩
  · rw [f1, f2]; exact h.cfgOk
  · intro hmm; rw [f2] at hmm ⊢; exact Nat.le_trans f3 (hroom hmm)

theorem pool1_newSubConn {s : St} (h : Pool1 ci s) (hroom : MM s → s.scRefs.length < (initialCfg s.cfgIn).max) :
    Pool1 ci (newSubConn s).1 := by
  unfold newSubConn; split
  · exact h
  · exact pool1_addSubConn h hroom

theorem pool1_enforce {s : St} (h : Pool1 ci s) (min fuel : Nat) (hmin : MM s → min ≤ (initialCfg s.cfgIn).max) :
    Pool1 ci (enforceMinSize s min fuel).1 := by
  induction fuel generalizing s with
  | zero => exact h
  | succ fuel ih =>
    unfold enforceMinSize
    split
    · rename_i hlt
      have ha := pool1_addSubConn h (fun hmm => Nat.lt_of_lt_of_le hlt (hmin hmm))
      have hci := (addSubConn_fields s).2.1
      generalize addSubConn s = r at ha hci ⊢
      obtain ⟨s1, ok, ev⟩ := r
      cases ok with
      | true => simp only; exact ih ha (by unfold MM; rw [hci]; exact hmin)
      | false => exact ha
    · exact h

theorem enforce_cfg (s : St) (min fuel : Nat) :
    (enforceMinSize s min fuel).1.cfg = s.cfg ∧ (enforceMinSize s min fuel).1.cfgIn = s.cfgIn := by
  induction fuel generalizing s with
  | zero => exact ⟨rfl, rfl⟩
  | succ fuel ih =>
    unfold enforceMinSize
    split
    · have hf := addSubConn_fields s
      generalize addSubConn s = r at hf ⊢
      obtain ⟨s1, ok, ev⟩ := r
      cases ok with
      | true => simp only; exact ⟨(ih s1).1.trans hf.1, (ih s1).2.trans hf.2.1⟩
      | false => exact ⟨hf.1, hf.2.1⟩
    · exact ⟨rfl, rfl⟩

/-- the first resolver update creates the pool with `minSize` connections -/
theorem pool1_ccsConfigure {s : St} (h : Pool1 ci s) :
    Pool1 ci (ccsConfigure s).1 ∧ (ccsConfigure s).1.cfg = some (initialCfg (ccsConfigure s).1.cfgIn) := by
  unfold ccsConfigure
  cases hc : s.cfg with
  | some c =>
    simp only
    refine ⟨h, ?_⟩
    rcases h.cfgOk with h' | h'
    · rw [hc] at h'; cases h'
    · rw [hc] at h'; rw [hc]; exact h'
  | none =>
    simp only
    have h0 : Pool1 ci { s with cfg := some (initialCfg s.cfgIn) } :=
      ⟨h.cin, bij_of_same h.bij ⟨rfl, rfl, fun _ => rfl⟩, tables_of_same h.tab ⟨rfl, rfl, rfl, rfl, rfl, rfl, rfl⟩, Or.inr rfl, h.size⟩
    have hcfg := enforce_cfg { s with cfg := some (initialCfg s.cfgIn) } (initialCfg s.cfgIn).min (initialCfg s.cfgIn).min
    exact ⟨pool1_enforce h0 _ _ (fun hmm => hmm), by rw [hcfg.1, hcfg.2]⟩

theorem pool1_opCcs {s : St} (h : Pool1 ci s) (ver : Nat) : Pool1 ci (opCcs s ver).1 := by
  unfold opCcs
  have h0 : Pool1 ci { s with addrs := ver } :=
    ⟨h.cin, bij_of_same h.bij ⟨rfl, rfl, fun _ => rfl⟩, tables_of_same h.tab ⟨rfl, rfl, rfl, rfl, rfl, rfl, rfl⟩, h.cfgOk, h.size⟩
  have h1 := (pool1_ccsConfigure h0).1
  have h1c := (pool1_ccsConfigure h0).2
  generalize ccsConfigure { s with addrs := ver } = r1 at h1 h1c ⊢
  obtain ⟨s1, ev0⟩ := r1
  simp only at h1 h1c ⊢
  have hsc := sameC_updateAll s1 (ccsTargets s1)
  have h2 := pool1_of_same h1 hsc (tables_of_same h1.tab (updateAll_sameT s1 (ccsTargets s1)))
  have h2c : (updateAll s1 (ccsTargets s1)).1.cfg = some (initialCfg (updateAll s1 (ccsTargets s1)).1.cfgIn) := by
    rw [hsc.2.1, hsc.2.2]; exact h1c
  generalize updateAll s1 (ccsTargets s1) = r2 at h2 h2c ⊢
  obtain ⟨s2, ev1⟩ := r2
  simp only at h2 h2c ⊢
  split
  · rw [h2c]
    exact pool1_enforce h2 _ _ (fun hmm => hmm)
  · exact h2

theorem pool1_getLeastBusy {s : St} (h : Pool1 ci s) (c : Cfg) (hc : c = initialCfg s.cfgIn) (l : List Slot) :
    Pool1 ci (getLeastBusy s c l).1 := by
  unfold getLeastBusy
  cases leastBusy s l with
  | none => exact h
  | some m =>
    simp only
    split
    · exact h
    · split
      · rename_i hg
        refine pool1_newSubConn h (fun _ => ?_)
        have hpos := initialCfg_max_pos s.cfgIn
        rw [← hc] at hpos ⊢
        simp only [Bool.or_eq_true, beq_iff_eq, decide_eq_true_eq] at hg
        rcases hg with hg | hg
        · omega
        · exact hg
      · exact h

theorem getReady_cfgIn (s : St) (c : Cfg) (key : String) : (getReadySubConnRef s c key).1.cfgIn = s.cfgIn :=
  (sameC_getReady s c key).2.2

theorem pool1_chooseSlot {s : St} (h : Pool1 ci s) (c : Cfg) (hc : c = initialCfg s.cfgIn) (l : List Slot) (key : String) :
    Pool1 ci (chooseSlot s c l key).1 := by
  unfold chooseSlot
  split
  · have h1 := pool1_of_same h (sameC_getReady s c key) (tables_of_same h.tab (getReady_sameT s c key))
    have hci := getReady_cfgIn s c key
    generalize getReadySubConnRef s c key = r at h1 hci ⊢
    obtain ⟨s1, o, b⟩ := r
    cases b with
    | true => exact h1
    | false => exact pool1_getLeastBusy h1 c (by rw [hc]; exact congrArg initialCfg hci.symm) l
  · exact pool1_getLeastBusy h c hc l

theorem pool1_finishPick {s : St} (h : Pool1 ci s) (r : Option Slot) (ev : List Event) (call : Nat) (cmd : Cmd) (loc : Loc)
    (key : String) (ctx : CtxKind) (dl : Option Int) : Pool1 ci (finishPick s r ev call cmd loc key ctx dl).1 :=
  pool1_of_same h (sameC_finishPick s r ev call cmd loc key ctx dl) (tables_finishPick h.tab r ev call cmd loc key ctx dl)

theorem pool1_opPick {s : St} (h : Pool1 ci s) (call pn : Nat) (m : String) (ctx : CtxKind) (dl : Option Int) (req : Req) :
    Pool1 ci (opPick s call pn m ctx dl req).1 := by
  unfold opPick
  split
  · exact h
  · cases s.published[pn]? with
    | none => exact h
    | some pub =>
      obtain ⟨st, p⟩ := pub
      cases p with
      | errTF => exact h
      | errNoSc => exact h
      | gcp l =>
        simp only
        cases hcfg : s.cfg with
        | none => exact h
        | some c =>
          simp only
          have hc : c = initialCfg s.cfgIn := by
            rcases h.cfgOk with h' | h'
            · rw [hcfg] at h'; cases h'
            · rw [hcfg] at h'; exact Option.some.inj h'
          split
          · exact h
          · generalize resolveCall c m ctx req = rc
            obtain ⟨cmd, loc, ok⟩ := rc
            cases ok with
            | none => exact h
            | some key =>
              simp only
              split
              · unfold pickRR
                split
                · exact h
                · simp only
                  have hrr : Pool1 ci { s with rr := (s.rr + 1) % 2 ^ 64 } :=
                    ⟨h.cin, bij_of_same h.bij ⟨rfl, rfl, fun _ => rfl⟩, tables_of_same h.tab ⟨rfl, rfl, rfl, rfl, rfl, rfl, rfl⟩,
                     h.cfgOk, h.size⟩
                  split
                  · exact pool1_finishPick hrr _ _ _ _ _ _ _ _
                  · exact ⟨h.cin, bij_of_same h.bij ⟨rfl, rfl, fun _ => rfl⟩, tables_of_same h.tab ⟨rfl, rfl, rfl, rfl, rfl, rfl, rfl⟩,
                     h.cfgOk, h.size⟩
              · have h1 := pool1_chooseSlot h c hc l key
                generalize chooseSlot s c l key = r at h1 ⊢
                obtain ⟨s1, o, ev⟩ := r
                exact pool1_finishPick h1 _ _ _ _ _ _ _ _

/-- a state report, under gRPC's contract -/
theorem pool1_opScs {s : St} (h : Pool1 ci s) (sc : Sc) (st : CState) (order : List Slot)
    (hct : st = .shutdown → lookup s.scStates sc = none) : Pool1 ci (opScs s sc st order).1 := by
  unfold opScs
  have hpre : ∀ p, scsPrologue s sc st = some p → Pool1 ci p.1 ∧ (st = .shutdown → p.1 = s) := by
    intro p hp
    unfold scsPrologue at hp
    cases hl : lookup s.refreshingMap sc with
    | none => simp [hl] at hp; subst hp; exact ⟨h, fun _ => rfl⟩
    | some slot =>
      simp only [hl] at hp
      split at hp
      · cases hp
      · rename_i hready
        cases hp
        have hrep : sc ∈ keys s.refreshingMap := lookup_isSome.mp (by rw [hl]; rfl)
        refine ⟨⟨?_, bij_swap h.bij h.tab sc slot hrep, tables_swap h.tab sc slot hrep, ?_, ?_⟩, fun hs => ?_⟩
        · cases hg : getRef s slot with
          | none => unfold swap; rw [hg]; exact h.cin
          | some r => obtain ⟨-, -, -, -, -, -, -, f8, -⟩ := swap_fields (sc := sc) hg; rw [f8]; exact h.cin
        · cases hg : getRef s slot with
          | none => unfold swap; rw [hg]; exact h.cfgOk
          | some r => obtain ⟨-, -, -, -, -, -, f7, f8, -⟩ := swap_fields (sc := sc) hg; rw [f7, f8]; exact h.cfgOk
        · cases hg : getRef s slot with
          | none => unfold swap; rw [hg]; exact h.size
          | some r =>
            obtain ⟨f1, -, -, -, -, -, -, f8, -⟩ := swap_fields (sc := sc) hg
            rw [f8, f1]
            intro hmm
            have hold : subAt s slot = some r.subConn := by unfold subAt; unfold getRef at hg; rw [hg]; rfl
            have hlo := h.bij.slotOf slot _ hold
            have holdk : r.subConn ∈ keys s.scRefs := lookup_isSome.mp (by rw [hlo]; rfl)
            have hfresh : sc ∉ keys s.scRefs := fun hk => (h.tab.freshF sc hrep).2 ((h.tab.keysEq sc).mpr hk)
            have hnk : sc ∉ keys (erase s.scRefs r.subConn) := fun hk => hfresh (mem_keys_erase hk)
            rw [length_insert_fresh hnk, length_erase_mem h.tab.ndR holdk]
            exact h.size hmm
        · subst hs; simp at hready
  cases hp : scsPrologue s sc st with
  | none => exact h
  | some p =>
    obtain ⟨s1, ev0⟩ := p
    obtain ⟨h1, hs1⟩ := hpre (s1, ev0) hp
    simp only at h1 hs1 ⊢
    cases hst : stateOf s1 sc with
    | none => exact h1
    | some oldS =>
      simp only
      have hne : st ≠ .shutdown := by
        intro hsd
        have := hs1 hsd
        subst this
        have := hct hsd
        unfold stateOf at hst
        rw [this] at hst; cases hst
      have t2 := tables_opScs h.tab sc st order
      unfold opScs at t2
      rw [hp] at t2
      simp only [hst] at t2
      have h2 := sameC_recordState s1 sc st hne
      generalize recordState s1 sc st = r2 at h2 t2 ⊢
      obtain ⟨s2, ev1⟩ := r2
      simp only at h2 t2 ⊢
      have h4 : SameC s1 (maybePublish (recordTransition (cleanFallback s2 sc oldS st) oldS st) oldS st
          (cleanFallback s2 sc oldS st).aggr order).1 :=
        ((h2.trans (sameC_cleanFallback s2 sc oldS st)).trans (sameC_recordTransition _ oldS st)).trans
          (sameC_maybePublish _ oldS st _ order)
      generalize maybePublish (recordTransition (cleanFallback s2 sc oldS st) oldS st) oldS st
          (cleanFallback s2 sc oldS st).aggr order = r4 at h4 t2 ⊢
      obtain ⟨s4, ev2⟩ := r4
      exact pool1_of_same h1 h4 t2

theorem pool1_opDone {s : St} (h : Pool1 ci s) (callId : Nat) (err : ErrKind) (reply : Msg) : Pool1 ci (opDone s callId err reply).1 :=
  pool1_of_same h (sameC_opDone s callId err reply) (tables_opDone h.tab callId err reply)

theorem pool1_opCtxDone {s : St} (h : Pool1 ci s) (callId : Nat) : Pool1 ci (opCtxDone s callId).1 :=
  pool1_of_same h (sameC_opCtxDone s callId) (tables_opCtxDone h.tab callId)

theorem pool1_step {s : St} (h : Pool1 ci s) (op : Op) (hct : contractOk s op) : Pool1 ci (step s op).1 := by
  have h1 : Pool1 ci (stepCore s op).1 := by
    cases op with
    | ccs ver => exact pool1_opCcs h ver
    | reserr => exact h
    | scs sc st order =>
      refine pool1_opScs h sc st order (fun hs => ?_)
      subst hs
      exact hct
    | factory n => exact ⟨h.cin, bij_of_same h.bij ⟨rfl, rfl, fun _ => rfl⟩, tables_of_same h.tab ⟨rfl, rfl, rfl, rfl, rfl, rfl, rfl⟩, h.cfgOk, h.size⟩
    | adv ns => exact ⟨h.cin, bij_of_same h.bij ⟨rfl, rfl, fun _ => rfl⟩, tables_of_same h.tab ⟨rfl, rfl, rfl, rfl, rfl, rfl, rfl⟩, h.cfgOk, h.size⟩
    | pick call pn m ctx dl req => exact pool1_opPick h call pn m ctx dl req
    | ctxdone call => exact pool1_opCtxDone h call
    | done call err reply => exact pool1_opDone h call err reply
    | pickHold call pn m ctx dl req =>
      exact opPickHold_cases _ s call pn m ctx dl req h
        (fun _ => ⟨h.cin, bij_of_same h.bij ⟨rfl, rfl, fun _ => rfl⟩, tables_of_same h.tab ⟨rfl, rfl, rfl, rfl, rfl, rfl, rfl⟩, h.cfgOk, h.size⟩)
        (pool1_opPick h call pn m ctx dl req)
    | resume call =>
      refine opResume_cases _ s call h
        (fun _ => ⟨h.cin, bij_of_same h.bij ⟨rfl, rfl, fun _ => rfl⟩, tables_of_same h.tab ⟨rfl, rfl, rfl, rfl, rfl, rfl, rfl⟩, h.cfgOk, h.size⟩) ?_
      intro hl c hc hg
      have h' : Pool1 ci { s with held := hl } :=
        ⟨h.cin, bij_of_same h.bij ⟨rfl, rfl, fun _ => rfl⟩, tables_of_same h.tab ⟨rfl, rfl, rfl, rfl, rfl, rfl, rfl⟩, h.cfgOk, h.size⟩
      refine pool1_newSubConn h' (fun _ => ?_)
      show s.scRefs.length < (initialCfg s.cfgIn).max
      have hce : c = initialCfg s.cfgIn := by
        rcases h.cfgOk with h0 | h0
        · rw [hc] at h0; cases h0
        · rw [hc] at h0; exact Option.some.inj h0
      have hpos := initialCfg_max_pos s.cfgIn
      rw [hce] at hg
      simp only [Bool.or_eq_true, beq_iff_eq, decide_eq_true_eq] at hg
      rcases hg with hg | hg
      · omega
      · exact hg
  unfold step
  generalize stepCore s op = r at h1 ⊢
  obtain ⟨s1, ev⟩ := r
  have h2 := pool1_of_same h1 (sameC_wake s1) (tables_wake h1.tab)
  simp only at h2 ⊢
  generalize wakeWaiters s1 = r2 at h2 ⊢
  obtain ⟨s2, ev2⟩ := r2
  exact h2

/-- every operation of the history respects gRPC's contract in the state it is applied to -/
def RunOk : St → List Op → Prop
  | _, [] => True
  | s, op :: ops => contractOk s op ∧ RunOk (step s op).1 ops

theorem pool1_init (ci : CfgInput) : Pool1 ci (init ci) := by
  refine ⟨rfl, ⟨?_, ?_, rfl⟩, tables_init ci, Or.inl rfl, fun _ => Nat.zero_le _⟩
  · intro slot sc h; simp [subAt, init] at h
  · intro sc slot h; simp [init, lookup] at h

theorem pool1_foldl (ops : List Op) : ∀ s, Pool1 ci s → RunOk s ops → Pool1 ci (ops.foldl (fun s op => (step s op).1) s) := by
  induction ops with
  | nil => intro s h _; exact h
  | cons op ops ih => intro s h hr; exact ih _ (pool1_step h op hr.1) hr.2

theorem pool1_run (ci : CfgInput) (ops : List Op) (hok : RunOk (init ci) ops) : Pool1 ci (run (init ci) ops) :=
  pool1_foldl ops _ (pool1_init ci) hok

/-! ## C03 -/

/-- **C03** for `minSize ≤ maxSize` (effective values) and a history in which gRPC reports Shutdown
    only for connections the balancer removed, the pool never holds more than `maxSize` channels;
    slots and pool connections are in bijection, so this is also the number of slots ever created -/
theorem size_bounded (ci : CfgInput) (ops : List Op) (hok : RunOk (init ci) ops)
    (hmm : (initialCfg ci).min ≤ (initialCfg ci).max) :
    (run (init ci) ops).scRefs.length ≤ (initialCfg ci).max ∧
    (run (init ci) ops).refs.length = (run (init ci) ops).scRefs.length := by
  have h := pool1_run ci ops hok
  have hs := h.size
  rw [h.cin] at hs
  exact ⟨hs hmm, h.bij.lenEq.symm⟩

/-- every pool connection sits in exactly the slot that holds it, and every slot holds a pool
    connection: a refresh replaces the connection of its slot and nothing else -/
theorem slots_bijective (ci : CfgInput) (ops : List Op) (hok : RunOk (init ci) ops) :
    (∀ slot sc, subAt (run (init ci) ops) slot = some sc → lookup (run (init ci) ops).scRefs sc = some slot) ∧
    (∀ sc slot, lookup (run (init ci) ops).scRefs sc = some slot → subAt (run (init ci) ops) slot = some sc) :=
  ⟨(pool1_run ci ops hok).bij.slotOf, (pool1_run ci ops hok).bij.refOf⟩

/-- non-vacuity: a contract-respecting history that grows the pool to its maximum -/
example : (run (init .absent) [.ccs 1, .scs 0 .ready [0]]).scRefs.length = 1 := by decide +kernel

/-- known finding K6 inside the model: *without* the contract hypothesis the bound fails.  A
    Shutdown report for a pool member with a refresh in flight, a resolver update that re-creates
    the pool, then the replacement's READY: two channels with `maxSize = 1`. -/
def k6cfg : CfgInput := .given { min := 1, max := 1, wm := 100, fb := false, rr := false, uc := 1, ums := 1, methods := true }
def k6ops : List Op := [.ccs 1, .scs 0 .ready [0], .pick 1 0 "plain" .gcp (some 0) (.msg ⟨"", []⟩), .adv 2000001,
  .done 1 .deClient ⟨"", []⟩, .scs 0 .shutdown [], .ccs 1, .scs 1 .ready [0]]
theorem size_bound_needs_contract :
    (run (init k6cfg) k6ops).scRefs.length = 2 ∧ (initialCfg k6cfg).max = 1 ∧ (initialCfg k6cfg).min = 1 := by
  decide +kernel

end GcpVerif.Pool
