/-
Driver for the MultiEndpoint model: replays the operations of a Go trace on the model,
compares the observations line by line, and evaluates the C13/C14 monitors on the states the
*implementation* printed.
-/
import GcpVerif.Model.ME
import GcpVerif.Spec.ME
import GcpVerif.Driver.Common
namespace GcpVerif.Driver.MEDrv
open GcpVerif.ME GcpVerif.Driver

def statusCh : Status → String
  | .unavailable => "U" | .available => "A" | .recovering => "R"

def parseStatus : String → Option Status
  | "U" => some .unavailable | "A" => some .available | "R" => some .recovering | _ => none

def kindCh : TimerKind → String
  | .recovery _ _ _ => "R" | .switch => "S"

def digest (s : St) : String :=
  let eps := (s.eps.mergeSort fun a b => a.id ≤ b.id).map fun e => s!"{e.id}:{e.prio}:{statusCh e.status}"
  let ts := s.timers.map fun t => s!"{t.tid}:{t.due}:{kindCh t.kind}" ++ (if t.stopped then ":x" else "")
  s!"cur={s.current} fut={s.future} now={s.now} eps={",".intercalate eps} timers={",".intercalate ts}"

def outStr : Out → String
  | .ok => "ok" | .err => "err" | .notFirable => "notfirable"

def parseOut : String → Option Out
  | "ok" => some .ok | "err" => some .err | "notfirable" => some .notFirable | _ => none

/-- parse the implementation's digest into the observable fields of a `St` -/
def parseDigest (r d : Int) (obs : String) : Option St := do
  let as := args (obs.splitOn " ")
  let now ← (arg as "now").toInt?
  let eps ← (commaList (arg as "eps")).mapM fun item =>
    match item.splitOn ":" with
    | [id, p, st] => do
      let p ← p.toNat?
      let st ← parseStatus st
      pure ({ id := id, obj := 0, prio := p, status := st, lastChange := none, timer := none } : Ep)
    | _ => none
  let ts ← (commaList (arg as "timers")).mapM fun item =>
    match item.splitOn ":" with
    | tid :: due :: k :: rest => do
      let tid ← tid.toNat?
      let due ← due.toInt?
      let kind ← (match k with | "R" => some (TimerKind.recovery 0 "" none) | "S" => some .switch | _ => none)
      pure ({ tid := tid, due := due, kind := kind, stopped := rest == ["x"] } : Timer)
    | _ => none
  pure { r := r, d := d, eps := eps, orphans := [], current := arg as "cur", future := arg as "fut",
         timers := ts, now := now, nextObj := 0, nextTid := 0 }

structure Sess where
  model : Option St := none       -- model state (none: no episode, or episode diverged)
  impl : Option St := none        -- last state printed by the implementation
  monitored : Bool := false       -- r ≥ 0 ∧ d ≥ 0: the theorems' hypothesis
  reports : List (String × Bool) := []   -- last availability report per endpoint since it was (re)added
  r : Int := 0
  d : Int := 0
  lastList : List String := []    -- the most recently accepted endpoint list
  shadow : Option St := none      -- the model run on the whole history of the episode, never dropped: what the history determines
  downAt : List (String × Int) := []   -- when each endpoint's current recovery window began (creation, or the report that took it down)
  deriving Inhabited

/-- history record of recovery windows: a window begins when an endpoint is created and when an
    available endpoint is reported unavailable; a report of availability ends it -/
def updDown (down : List (String × Int)) (pre post : St) (op : Op) (out : Out) : List (String × Int) :=
  match op with
  | .setAvail e false =>
    match findEp pre.eps e with
    | some x => if x.status == .available then (down.filter fun p => p.1 != e) ++ [(e, pre.now)] else down
    | none => down
  | .setAvail e true => down.filter fun p => p.1 != e
  | .setEndpoints l =>
    if out == Out.ok then
      (down.filter fun p => l.contains p.1) ++
        ((ids post.eps).filter fun id => !(ids pre.eps).contains id).map fun id => (id, pre.now)
    else down
  | _ => down

/-- C14: the recovery window is not cut short: an endpoint whose window began at `t` is not unavailable
    before `t + r` -/
def windowRespected (down : List (String × Int)) (post : St) : Bool :=
  post.eps.all fun e =>
    match down.find? (fun p => p.1 == e.id) with
    | some (_, t) => e.status != .unavailable || decide (t + post.r ≤ post.now)
    | none => true

/-- the history record behind "known to be available": an endpoint counts as available exactly when the
    last report for it, since it was (re)added to the list, said so -/
def updReports (reports : List (String × Bool)) (pre : St) (op : Op) (out : Out) : List (String × Bool) :=
  match op with
  | .setAvail e v => if (ids pre.eps).contains e then (reports.filter fun p => p.1 != e) ++ [(e, v)] else reports
  | .setEndpoints l => if out == .ok then reports.filter fun p => l.contains p.1 else reports
  | _ => reports

/-- the table is the accepted list: one entry per distinct name, ranked by first occurrence (F29) -/
def listMatches (l : List String) (post : St) : Bool :=
  (post.eps.all fun e => l.eraseDups[e.prio]? == some e.id) && (l.all fun id => (ids post.eps).contains id) &&
    post.eps.length == l.eraseDups.length

def statusMatchesReports (reports : List (String × Bool)) (post : St) : Bool :=
  post.eps.all fun e =>
    (e.status == .available) == ((reports.find? fun p => p.1 == e.id).map (·.2) == some true)

def parseOp (toks : List String) : Option Op :=
  match toks with
  | "avail" :: rest => let a := args rest; some (.setAvail (arg a "e") (arg a "v" == "1"))
  | "seteps" :: rest => let a := args rest; some (.setEndpoints (decList (arg a "eps")))
  | "adv" :: rest => let a := args rest; (arg a "ns").toNat?.map .advance
  | "fire" :: rest => let a := args rest; (arg a "t").toNat?.map .fire
  | _ => none

def runMonitors (rep : Report) (ln : Nat) (pre : St) (op : Op) (out : Out) (post : St) : Report :=
  let rep := (c13_all pre op out post).foldl (fun rep (n, ok) =>
    if ok then rep else { rep.msg s!"MONITOR property=C13 clause={n} line={ln}" with monitorFails := rep.monitorFails + 1 }) rep
  let rep := (c14_all pre op out post).foldl (fun rep (n, ok) =>
    if ok then rep else { rep.msg s!"MONITOR property=C14 clause={n} line={ln}" with monitorFails := rep.monitorFails + 1 }) rep
  -- C16 ("no accepted update can make a later RPC panic or use a closed pool"): GCPMultiEndpoint looks up the pool of
  -- Current() without a check; that endpoint must be one of the MultiEndpoint's list (the premise of GME.rpc_total)
  if c13_mem post then rep
  else { rep.msg s!"MONITOR property=C16 clause=current_names_a_listed_endpoint line={ln}" with monitorFails := rep.monitorFails + 1 }

/-- interesting situations reached on the implementation trace (evidence counters) -/
def interesting (rep : Report) (pre : St) (op : Op) (post : St) : Report :=
  let rep := if pre.current != post.current then rep.bump "me.current_changed" else rep
  let rep := match op with
    | .fire tid =>
      match pre.timers.find? (fun t => t.tid == tid) with
      | some t =>
        let rep := if t.stopped then rep.bump "me.fired_stopped_timer" else rep
        let rep := if t.kind == .switch then rep.bump "me.fired_switch" else rep.bump "me.fired_recovery"
        if t.kind == .switch && pre.current != post.current then rep.bump "me.switch_timer_moved_current" else rep
      | none => rep
    | .setEndpoints _ =>
      if !(ids post.eps).contains pre.current then rep.bump "me.current_removed" else rep
    | _ => rep
  let rep := match findEp post.eps post.current with
    | some c => if c.status == .recovering && anyAvail post.eps then rep.bump "me.protected_current" else rep
    | none => rep
  if (liveTimers post).isEmpty && anyAvail post.eps then rep.bump "me.converged_state" else rep

def handle (sess : Sess) (rep : Report) (ln : Nat) (toks : List String) (obs : String) : Sess × Report :=
  let (outS, dig) := match obs.splitOn " ; " with
    | [a, b] => (a, b)
    | _ => (obs, "")
  match toks with
  | "new" :: rest =>
    let a := args rest
    match (arg a "r").toInt?, (arg a "d").toInt? with
    | some r, some d =>
      let rep := { rep with episodes := rep.episodes + 1 }
      match init r d (decList (arg a "eps")) with
      | none =>
        let rep := if outS == "err" then rep else { rep.msg s!"DIVERGE line={ln} model=err impl={obs}" with diverged := rep.diverged + 1 }
        ({}, rep.bump "me.new_rejected")
      | some s =>
        let mine := s!"ok ; {digest s}"
        if mine == obs then
          ({ model := some s, shadow := some s, impl := parseDigest (max r 0) (max d 0) dig, monitored := true, r := r, d := d, lastList := decList (arg a "eps"),
             downAt := (decList (arg a "eps")).map fun id => (id, 0) }, rep)
        else ({ model := none, shadow := some s, impl := parseDigest (max r 0) (max d 0) dig, monitored := true, r := r, d := d, lastList := decList (arg a "eps"),
                downAt := (decList (arg a "eps")).map fun id => (id, 0) },
              { rep.msg s!"DIVERGE line={ln} model={mine} impl={obs}" with diverged := rep.diverged + 1 })
    | _, _ => (sess, rep.msg s!"BAD line={ln}")
  | _ =>
    match parseOp toks with
    | none => (sess, rep.msg s!"BAD line={ln}")
    | some op =>
      if sess.impl.isNone then (sess, rep.bump "me.skipped_no_episode") else
      let implPost := parseDigest (max sess.r 0) (max sess.d 0) dig
      -- monitors and evidence counters run on what the implementation printed — also after the model
      -- has been lost to a divergence earlier in the episode
      let (rep, reports) := match sess.impl, implPost, parseOut outS with
        | some pre, some post, some o =>
          let reports := updReports sess.reports pre op o
          let rep := if sess.monitored then runMonitors rep ln pre op o post else rep
          let rep := if sess.monitored && !statusMatchesReports reports post then
              { rep.msg s!"MONITOR property=C13 clause=status_matches_reports line={ln}" with monitorFails := rep.monitorFails + 1 }
            else rep
          let rep := if sess.monitored && !windowRespected (updDown sess.downAt pre post op o) post then
              { rep.msg s!"MONITOR property=C14 clause=window_not_cut_short line={ln}" with monitorFails := rep.monitorFails + 1 }
            else rep
          let lastList := match op with | .setEndpoints l => if o == Out.ok then l else sess.lastList | _ => sess.lastList
          let rep := if sess.monitored && !listMatches lastList post then
              { rep.msg s!"MONITOR property=C13 clause=list_and_priorities line={ln}" with monitorFails := rep.monitorFails + 1 }
            else rep
          (interesting rep pre op post, reports)
        | _, _, _ => (rep.msg s!"UNPARSED line={ln} obs={obs}", sess.reports)
      -- C13/C14: Current() is a function of the history (reports, lists, clock, timers fired): the model
      -- run on the whole history — kept also after the implementation's table has diverged from it —
      -- says which endpoint that is
      let shadow' := sess.shadow.map fun s => (step s op).1
      let rep := match shadow', implPost with
        | some sh, some post =>
          if sess.monitored && sh.current != post.current then
            { (rep.msg s!"MONITOR property=C13 clause=current_by_history line={ln}").msg s!"MONITOR property=C14 clause=current_by_history line={ln}"
              with monitorFails := rep.monitorFails + 2 }
          else rep
        | _, _ => rep
      let sess := { sess with shadow := shadow' }
      let downAt := match sess.impl, implPost, parseOut outS with
        | some pre, some post, some o => updDown sess.downAt pre post op o
        | _, _, _ => sess.downAt
      let sess := { sess with downAt := downAt }
      match sess.model with
      | some s =>
        let (s', out) := step s op
        let mine := s!"{outStr out} ; {digest s'}"
        let lastList := match op, parseOut outS with | .setEndpoints l, some Out.ok => l | _, _ => sess.lastList
        if mine == obs then ({ sess with model := some s', impl := implPost, reports := reports, lastList := lastList }, rep)
        else ({ sess with model := none, impl := implPost, reports := reports, lastList := lastList },
              { rep.msg s!"DIVERGE line={ln} model={mine} impl={obs}" with diverged := rep.diverged + 1 })
      | none =>
        let lastList := match op, parseOut outS with | .setEndpoints l, some Out.ok => l | _, _ => sess.lastList
        ({ sess with impl := implPost, reports := reports, lastList := lastList }, rep.bump "me.monitored_after_divergence")

end GcpVerif.Driver.MEDrv
