/- Driver for the key-extraction model (C11). -/
import GcpVerif.Model.KeyPath
import GcpVerif.Model.Checksum
import GcpVerif.Driver.Common
namespace GcpVerif.Driver.KpDrv
open GcpVerif.KeyPath GcpVerif.Driver

def hexToString (h : String) : Option String :=
  (GcpVerif.Checksum.ofHex h).bind fun b => String.fromUTF8? (ByteArray.mk b.toArray)

def stringToHex (s : String) : String := GcpVerif.Checksum.toHex s.toUTF8.toList

/-- tokens of the s-expression: "(", ")", atoms -/
def tokenize (s : String) : List String :=
  let rec go (cs : List Char) (cur : List Char) (acc : List String) : List String :=
    let flush := if cur.isEmpty then acc else String.ofList cur.reverse :: acc
    match cs with
    | [] => flush.reverse
    | '(' :: r => go r [] ("(" :: flush)
    | ')' :: r => go r [] (")" :: flush)
    | ' ' :: r => go r [] flush
    | c :: r => go r (c :: cur) acc
  go s.toList [] []

mutual
  partial def parseV : List String → Option (V × List String)
    | "I" :: r => some (.invalid, r)
    | "O" :: r => some (.other, r)
    | "PN" :: r => some (.nilPtr, r)
    | "FN" :: r => some (.nilIface, r)
    | "(" :: "S" :: ")" :: r => some (.str "", r)
    | "(" :: "S" :: h :: ")" :: r => (hexToString h).map fun s => (.str s, r)
    | "(" :: "P" :: r => do
      let (v, r) ← parseV r
      match r with | ")" :: r => some (.ptr v, r) | _ => none
    | "(" :: "F" :: r => do
      let (v, r) ← parseV r
      match r with | ")" :: r => some (.iface v, r) | _ => none
    | "(" :: "L" :: r => do
      let (xs, r) ← parseList r
      some (.slice xs, r)
    | "(" :: "T" :: r => do
      let (fs, r) ← parseFields r
      some (.struct fs, r)
    | _ => none
  partial def parseList : List String → Option (List V × List String)
    | ")" :: r => some ([], r)
    | toks => do
      let (v, r) ← parseV toks
      let (vs, r) ← parseList r
      some (v :: vs, r)
  partial def parseFields : List String → Option (List (String × Option V) × List String)
    | ")" :: r => some ([], r)
    | "(" :: name :: "!" :: ")" :: r => do
      let (fs, r) ← parseFields r
      some ((name, none) :: fs, r)
    | "(" :: name :: r => do
      let (v, r) ← parseV r
      match r with
      | ")" :: r => do
        let (fs, r) ← parseFields r
        some ((name, some v) :: fs, r)
      | _ => none
    | _ => none
end

/-- shape statistics for the evidence (is the generator mostly hitting errors?) -/
def outcomeKind (locator : String) (r : Option (List String)) : String :=
  match r with
  | none => "kp.error"
  | some [] => "kp.ok_no_keys"
  | some [_] => if (splitDots locator).length > 1 then "kp.ok_nested_single" else "kp.ok_single"
  | some _ => "kp.ok_fanout"

def handle (rep : Report) (ln : Nat) (toks : List String) (obs : String) : Report :=
  match toks with
  | "keys" :: locTok :: rest =>
    let valStr := " ".intercalate rest
    let loc := (kv locTok).2
    match hexToString loc, parseV (tokenize ((valStr.drop 4).toString)) with
    | some locator, some (v, []) =>
      let rep := { rep with episodes := rep.episodes + 1 }
      let r := getAffinityKeys locator v
      let mine := match r with
        | none => "err"
        | some ks => "ok " ++ ",".intercalate (ks.map stringToHex)
      let rep := rep.bump (outcomeKind locator r)
      -- C11 monitor on the implementation's answer: never a panic; equals the declarative `follow`
      let spec := match follow (splitDots locator) v with
        | none => "err"
        | some ks => "ok " ++ ",".intercalate (ks.map stringToHex)
      let rep := if obs == "PANIC" then
          { rep.msg s!"MONITOR property=C11 clause=keys_total line={ln}" with monitorFails := rep.monitorFails + 1 }
        else if obs != spec then
          { rep.msg s!"MONITOR property=C11 clause=keys_eq_follow line={ln}" with monitorFails := rep.monitorFails + 1 }
        else rep
      let rep := if obs == "PANIC" then
          { rep.msg s!"MONITOR property=C05 clause=panic line={ln}" with monitorFails := rep.monitorFails + 1 } else rep
      if mine == obs then rep
      else { rep.msg s!"DIVERGE line={ln} model={mine} impl={obs}" with diverged := rep.diverged + 1 }
    | _, _ => rep.msg s!"BAD line={ln} (unparsable value or non-UTF-8 locator)"
  | "deep" :: rest =>
    -- a locator with `segments` segments on a value that can be followed that far (a cycle), run in a child process
    -- with a lowered stack limit: the model (structural recursion, no stack) says ["k"]
    let a := args rest
    let rep := { rep with episodes := rep.episodes + 1 }
    let rep := rep.bump s!"kp.deep_locator_{arg a "segments"}_{obs.takeWhile (· != ' ')}"
    let mine := "ok " ++ stringToHex "k"
    if obs == "inconclusive" then rep
    else if obs == "crashed" then
      -- C11 "never panics": the process died of stack exhaustion (K10)
      { rep.msg s!"MONITOR property=C11 clause=keys_total line={ln}" with monitorFails := rep.monitorFails + 1 }
    else if mine == obs then rep
    else { rep.msg s!"DIVERGE line={ln} model={mine} impl={obs}" with diverged := rep.diverged + 1 }
  | _ => rep.msg s!"BAD line={ln}"

end GcpVerif.Driver.KpDrv
