/- Driver for the GCPMultiEndpoint model (C15, C16). -/
import GcpVerif.Model.GME
import GcpVerif.Model.Monitor
import GcpVerif.Driver.Common
import GcpVerif.Driver.ME
namespace GcpVerif.Driver.GmeDrv
open GcpVerif.GME GcpVerif.Driver

def insertAll (x : String) : List String → List (List String)
  | [] => [[x]]
  | y :: ys => (x :: y :: ys) :: (insertAll x ys).map (y :: ·)

def perms : List String → List (List String)
  | [] => [[]]
  | x :: xs => (perms xs).flatMap (insertAll x)

def plusList (s : String) : List String := if s == "" then [] else s.splitOn "+"

def parseOpts (s : String) : Opts :=
  if s == "" then [] else
  (s.splitOn ",").map fun item =>
    match item.splitOn ":" with
    | [name, l] => (if name == "~" then "" else name, if l == "-" then none else some (plusList l))   -- "~" = the empty name
    | _ => (item, none)

def meStr (name : String) (me : ME.St) : String :=
  let eps := ((me.eps.map fun e => s!"{e.id}/{e.prio}/{MEDrv.statusCh e.status}").mergeSort (· ≤ ·))
  s!"{name}:{me.current}:{"+".intercalate eps}"

def digest (s : St) (open_ : Nat) : String :=
  if !s.alive then s!"mes= pools= default= open={open_} monitors=0 dials="
  else
    let mes := (s.mes.mergeSort fun a b => a.1 ≤ b.1).map fun p => meStr p.1 p.2
    let pools := s.pools.mergeSort (· ≤ ·)
    let ds := ((s.dials.map fun p => s!"{p.1}:{p.2}").mergeSort (· ≤ ·))
    s!"mes={";".intercalate mes} pools={"+".intercalate pools} default={s.defaultName} open={pools.length} monitors={pools.length} dials={"+".intercalate ds} gcpcfg=ok"

def fail (rep : Report) (ln : Nat) (p c : String) : Report :=
  { rep.msg s!"MONITOR property={p} clause={c} line={ln}" with monitorFails := rep.monitorFails + 1 }

/-- monitors on the implementation's printed state: pools exactly the mentioned endpoints, one open
    connection and one monitor per pool, nothing left after Close / a failed construction -/
def monitor (rep : Report) (ln : Nat) (op : String) (a : List (String × String)) (obs : String) : Report :=
  let parts := obs.splitOn " ; "
  let res := parts.headD ""
  let o := args ((parts.getD 1 "").splitOn " ")
  let rep := if obs.contains "PANIC" then fail (fail rep ln "C16" "rpc_total") ln "C05" "panic" else rep
  -- C17: GCPConfig() stays an equal deep copy of the configuration given at construction
  let rep := if obs.contains "gcpcfg=changed" || obs.contains "gcpcfg=aliased" then fail rep ln "C17" "gcpconfig_fixed_at_construction" else rep
  let pools := plusList (arg o "pools")
  let rep := if (op == "new" || op == "upd" || op == "pstate" || op == "close") && parts.length == 2 then
      let rep := if arg o "open" != toString pools.length then fail rep ln "C16" "close_releases_all" else rep
      let rep := if arg o "monitors" != toString pools.length then fail rep ln "C15" "monitors_match_pools" else rep
      rep
    else rep
  let rep := if (op == "new" || op == "upd") && res == "ok" then
      let want := (validEndpoints (parseOpts (arg a "opts"))).mergeSort (· ≤ ·)
      let rep := if pools == want then rep else fail rep ln "C15" "pools_exact_after_update"
      let rep := if optsValid (arg a "default") (parseOpts (arg a "opts")) then rep else fail rep ln "C16" "invalid_update_rejected"
      if (plusList (arg a "fail")).any (fun e => want.contains e) && op == "new" then fail rep ln "C16" "invalid_update_rejected" else rep
    else rep
  let rep := if op == "rpc" && obs.endsWith "(closed)" then fail rep ln "C16" "rpc_uses_open_pool" else rep
  rep

structure Sess where
  model : Option St := none
  lastImpl : String := ""          -- the implementation's digest after the previous operation
  ready : List (String × Bool) := []   -- connectivity of each endpoint's pool, as the harness last set it
  histDefault : String := ""           -- the default name of the last accepted new / upd (history, not the printed state)
  histOpts : List (String × List String) := []   -- the MultiEndpoints configured by the last accepted new / upd
  deriving Inhabited

/-- the printed MultiEndpoints with priorities: (name, [(endpoint, priority)]) -/
def parseMesPrio (dg : String) : List (String × List (String × Nat)) :=
  let o := args (dg.splitOn " ")
  ((arg o "mes").splitOn ";").filterMap fun item =>
    match item.splitOn ":" with
    | [name, _, eps] =>
      some (name, (eps.splitOn "+").filterMap fun e =>
        match e.splitOn "/" with
        | [id, p, _] => p.toNat?.map fun n => (id, n)
        | _ => none)
    | _ => none

/-- C15: the configured MultiEndpoints are exactly those of the last accepted options, each with the
    configured endpoints ranked by their first position in the configured list (F29) -/
def configMatches (hist : List (String × List String)) (dg : String) : Bool :=
  let mes := parseMesPrio dg
  (mes.all fun (n, eps) =>
    match hist.find? (fun h => h.1 == n) with
    | some (_, l) => (eps.all fun (id, p) => l.eraseDups[p]? == some id) && (l.all fun id => eps.any fun q => q.1 == id) &&
        eps.length == l.eraseDups.length
    | none => false) &&
  hist.all fun (n, _) => mes.any fun m => m.1 == n

/-- the printed MultiEndpoints: (name, current, [(endpoint, status letter)]) -/
def parseMes (dg : String) : List (String × String × List (String × String)) :=
  let o := args (dg.splitOn " ")
  ((arg o "mes").splitOn ";").filterMap fun item =>
    match item.splitOn ":" with
    | [name, cur, eps] =>
      some (name, cur, (eps.splitOn "+").filterMap fun e =>
        match e.splitOn "/" with
        | [id, _, st] => some (id, st)
        | _ => none)
    | _ => none

/-- C15: every MultiEndpoint reflects the connectivity of the pools: an endpoint whose pool is
    READY is available, one whose pool is not is unavailable or inside its recovery window -/
def reflectsPools (ready : List (String × Bool)) (dg : String) : Bool :=
  (parseMes dg).all fun (_, _, eps) => eps.all fun (id, st) =>
    match ready.find? (fun p => p.1 == id) with
    | some (_, true) => st == "A"
    | _ => st != "A"

/-- C15: the pool an RPC must use, read off the printed state -/
def expectedPool (dg : String) (histNames : List String) (histDefault : String) (name : Option String) : Option String :=
  let mes := parseMes dg
  -- which names exist and which one is the default is taken from the history of accepted updates
  let byName (n : String) := if histNames.contains n then (mes.find? fun m => m.1 == n).map fun m => m.2.1 else none
  match name.bind byName with
  | some cur => some cur
  | none => byName histDefault

/-- the monitor model run over the history of the `livemon` scenario: the monitor told the
    MultiEndpoints READY (1) and sleeps; while it is stuck in `notify` (the update holds the lock) the
    connectivity flips; afterwards it runs until it blocks.  Returns what the MultiEndpoints were told. -/
def liveMonTold (flips : Nat) (final : Nat) : Option Nat :=
  let s0 := Monitor.run (Monitor.init 1) [.mon, .mon]
  -- the i-th flip leaves the pool not ready (0) / ready (1) alternately; the last one is what the harness read
  let envs : List Monitor.Step := (List.range flips).map fun i => .env (if i + 1 == flips then final else (i % 2))
  -- the monitor wakes after the first flip, reads, and is stuck in notify during the others
  let hist : List Monitor.Step := match envs with
    | [] => []
    | e :: es => e :: .mon :: es
  let s1 := Monitor.run s0 hist
  let s2 := Monitor.run s1 (List.replicate 8 .mon)
  if Monitor.blocked s2 then s2.told else none

/-- the monitor model run over the history of the `livemon park=1` scenario: the monitor reports READY
    (1) and is stopped in front of WaitForStateChange; the pool goes down, an update reports the pools'
    states, the pool comes back; the monitor continues until it blocks. -/
def liveMonParkTold : Option Nat :=
  let hist : List Monitor.Step := [.mon, .env 0, .mon, .mon, .env 1, .mon, .mon, .env 0, .sync, .env 1]
  let s1 := Monitor.run (Monitor.init 1) hist
  let s2 := Monitor.run s1 (List.replicate 8 .mon)
  if Monitor.blocked s2 then s2.told else none

/-- the model run over the `liveorder` scenario: three pools READY and known READY; three updates each add
    a MultiEndpoint with a switching delay over them, in different priority orders. Returns the current
    endpoint of each new MultiEndpoint right after its update. -/
def liveOrderCurs : List String :=
  let lives := ["live1", "live2", "live3"]
  let o1 : Opts := [("main", some ["live1"])]
  let s1 := (update init "main" o1 [] (fun _ => false)).1
  let s1 := notifyAll s1 "live1" true
  let o2 : Opts := o1 ++ [("warm", some lives)]
  let s2 := (update s1 "main" o2 [] (fun e => e == "live1")).1
  let s2 := notifyAll (notifyAll s2 "live2" true) "live3" true
  let orders : List (List String) := [["live2", "live3", "live1"], ["live3", "live1", "live2"], ["live1", "live2", "live3"]]
  let hour : Int := 3600000000000
  let (s5, o5, curs) := ((List.range 3).zip orders).foldl (fun (acc : St × Opts × List String) (io : Nat × List String) =>
      let (s, o, curs) := acc
      let name := s!"new{io.1 + 1}"
      let o' := o ++ [(name, some io.2)]
      let s' := (update s "main" o' [] (fun e => lives.contains e) hour).1
      (s', o', curs ++ [((findME s' name).map (·.current)).getD "?"])) (s2, o2, [])
  -- an existing MultiEndpoint gets a READY endpoint put on top of its list
  let o6 := o5 ++ [("late", some ["live3"])]
  let s6 := (update s5 "main" o6 [] (fun e => lives.contains e)).1
  let o7 := o5 ++ [("late", some ["live1", "live3"])]
  let s7 := (update s6 "main" o7 [] (fun e => lives.contains e)).1
  curs ++ [((findME s7 "late").map (·.current)).getD "?"]

def handle (sess : Sess) (rep : Report) (ln : Nat) (toks : List String) (obs : String) : Sess × Report :=
  let a := args toks.tail
  let op := toks.headD ""
  let rep := monitor rep ln op a obs
  let implDigest := (obs.splitOn " ; ").getD 1 ""
  let prevImpl := sess.lastImpl          -- the state printed after the previous operation
  -- C16: after a failed update every RPC is routed as before: the printed state is unchanged
  let rep := if op == "upd" && obs.startsWith "err" && sess.lastImpl != "" && implDigest != sess.lastImpl
             then fail rep ln "C16" "failed_update_is_identity" else rep
  let rep := if op == "upd" && obs.startsWith "err" then rep.bump "gme.update_rejected" else rep
  -- the harness's own record of pool connectivity: new pools start without connectivity, pstate sets it
  let sess := match op with
    | "pstate" => if obs.startsWith "ok" then { sess with ready := (sess.ready.filter fun p => p.1 != arg a "e") ++ [(arg a "e", arg a "ready" == "1")] } else sess
    | "new" => { sess with ready := [] }
    | _ => sess
  let sess := if (op == "new" || op == "upd") && obs.startsWith "ok" then
      { sess with histDefault := arg a "default",
                  histOpts := (parseOpts (arg a "opts")).filterMap fun p => p.2.map fun l => (p.1, l) }
    else sess
  let rep := if (op == "new" || op == "upd") && obs.startsWith "ok" && implDigest != "" && !configMatches sess.histOpts implDigest
    then fail rep ln "C15" "configured_multiendpoints" else rep
  let sess := if (op == "new" || op == "upd") && obs.startsWith "ok" then
      -- pools that were closed lose their record
      let pools := plusList (arg (args (implDigest.splitOn " ")) "pools")
      { sess with ready := sess.ready.filter fun p => pools.contains p.1 }
    else sess
  -- C15 "every MultiEndpoint already reflects the connectivity of the kept pools when the call
  -- returns": the pools of this harness never have real connectivity (`pstate` only delivers a
  -- notification), and the status sync at the end of an update re-reads the real state — so right
  -- after a successful update no endpoint of any MultiEndpoint may still count as available
  let rep := if (op == "new" || op == "upd") && obs.startsWith "ok" && implDigest != "" &&
      !((parseMes implDigest).all fun (_, _, eps) => eps.all fun (_, st) => st != "A")
    then fail rep ln "C15" "reflects_pool_connectivity" else rep
  let rep := if op == "rpc" && sess.lastImpl != "" && obs.startsWith "pool=" then
      let name := if arg a "name" == "-" then none else if arg a "name" == "~" then some "" else some (arg a "name")
      match expectedPool sess.lastImpl (sess.histOpts.map (·.1)) sess.histDefault name with
      | some e => if obs == s!"pool={e}" then rep else fail rep ln "C15" "rpc_routes_current"
      | none => rep
    else rep
  let sess := if implDigest != "" then { sess with lastImpl := implDigest } else sess
  let diverge (mine : String) : Sess × Report :=
    ({ sess with model := none }, { rep.msg s!"DIVERGE line={ln} model={mine} impl={obs}" with diverged := rep.diverged + 1 })
  match op with
  | "livemon" =>
    -- a self-contained scenario on a pool with real connectivity and the real monitor goroutine
    let sess := { sess with model := none, lastImpl := "", ready := [] }
    let rep := { rep with episodes := rep.episodes + 1 }
    let final := arg a "final"
    if final != "READY" && final != "NOTREADY" then
      -- the environment did not cooperate (no connectivity in time): nothing to compare
      (sess, if obs == "PANIC" then rep else if obs == "HANG" then fail rep ln "C15" "update_returns" else rep.bump "gme.livemon_inconclusive")
    else
      let fl := (arg a "flips").toNat?.getD 0
      let park := arg a "park" == "1"
      let rep := rep.bump (if park then s!"gme.livemon_monitor_stopped_before_wait_{final}" else s!"gme.livemon_flips_{fl}_{final}")
      let mine := match (if park then liveMonParkTold else liveMonTold fl (if final == "READY" then 1 else 0)) with
        | some 1 => "told=A"
        | some _ => "told=U"
        | none => "told=?"
      -- the observation: told=<A|U> stale=<reports that contradicted the pool's state when they were made> reports=<n>
      let o := args (obs.splitOn " ")
      let toldObs := "told=" ++ arg o "told"
      -- monitor (theorem blocked_means_told): once quiet, the MultiEndpoints were told the current state
      let rep := if toldObs != (if final == "READY" then "told=A" else "told=U") then fail rep ln "C15" "blocked_means_told" else rep
      -- monitor (theorem report_is_current): no report said the opposite of the pool's state at that moment
      let rep := if arg o "stale" != "0" then fail rep ln "C15" "report_is_current" else rep
      let rep := if (arg o "reports").toNat?.getD 0 ≥ 3 then rep.bump "gme.livemon_three_or_more_reports" else rep
      let mine := mine ++ " stale=0"
      let obs := toldObs ++ " stale=" ++ arg o "stale"
      if mine == obs then (sess, rep) else ({ sess with model := none }, { rep.msg s!"DIVERGE line={ln} model={mine} impl={obs}" with diverged := rep.diverged + 1 })
  | "closetimers" =>
    -- Close() with recovery timers pending: no goroutine started by the object may outlive it (C16; known finding K9)
    let sess := { sess with model := none, lastImpl := "", ready := [] }
    let rep := { rep with episodes := rep.episodes + 1 }
    let rep := rep.bump "gme.closed_with_timers_pending"
    let n := (arg (args (obs.splitOn " ")) "after_close")
    if n == "0" then (sess, rep)
    else if n.toNat?.isSome then (sess, fail rep ln "C16" "close_stops_everything")
    else (sess, rep.bump "gme.closetimers_inconclusive")
  | "liveorder" =>
    -- self-contained, like livemon: pools with real connectivity
    let sess := { sess with model := none, lastImpl := "", ready := [] }
    let rep := { rep with episodes := rep.episodes + 1 }
    if arg a "final" != "ok" then
      (sess, if obs == "PANIC" then rep else rep.bump "gme.liveorder_inconclusive")
    else
      let rep := rep.bump "gme.multiendpoint_with_delay_added_over_ready_pools"
      let mine := "cur=" ++ ",".intercalate liveOrderCurs
      -- monitor (C15, "already reflects the connectivity of the kept pools when the call returns"): a new MultiEndpoint
      -- whose endpoints' pools are all READY routes to the first endpoint of its list
      let rep := if !obs.startsWith "cur=live2,live3,live1," then fail rep ln "C15" "new_multiendpoint_routes_to_top_ready" else rep
      -- … and an existing one that gets a READY endpoint put on top of its list (no switching delay) routes there
      let rep := if !obs.endsWith ",live1" then fail rep ln "C15" "reflects_kept_pools_when_update_returns" else rep
      if mine == obs then (sess, rep) else ({ sess with model := none }, { rep.msg s!"DIVERGE line={ln} model={mine} impl={obs}" with diverged := rep.diverged + 1 })
  | "new" | "upd" =>
    let rep := if op == "new" then { rep with episodes := rep.episodes + 1 } else rep
    let base : Option St := if op == "new" then some init else sess.model
    match base with
    | none => (sess, rep.bump "gme.skipped_after_divergence")
    | some s =>
      -- the final status update tells every MultiEndpoint about its own endpoints in list order (F34): the
      -- outcome is a function of the options and the state
      let (s', ok) := update s (arg a "default") (parseOpts (arg a "opts")) (plusList (arg a "fail")) (fun _ => false)
      let rep := if ok && op == "upd" then rep.bump "gme.update_accepted" else rep
      let rep := if ok && s.pools.any (fun e => !s'.pools.contains e) then rep.bump "gme.pool_closed_by_update" else rep
      let rep := if ok && s.alive && s.pools.any (fun e => s'.pools.contains e) then rep.bump "gme.pool_kept" else rep
      let mine := (if ok then "ok" else "err") ++ " ; " ++ digest s' s'.pools.length
      if mine == obs then ({ sess with model := some s' }, rep) else diverge mine
  | "stalenotify" =>
    -- a late report from the monitor of a pool that no longer exists: no MultiEndpoint may change
    match sess.model with
    | none => (sess, rep.bump "gme.skipped_after_divergence")
    | some s =>
      if obs == "bad-op" then (sess, rep) else
      let rep := rep.bump "gme.late_report_of_removed_pool"
      let mine := "ok ; " ++ digest s s.pools.length
      let rep := if implDigest != "" && prevImpl != "" && implDigest != prevImpl then fail rep ln "C15" "removed_pool_reports_ignored" else rep
      if mine == obs then (sess, rep)
      else ({ sess with model := none }, { rep.msg s!"DIVERGE line={ln} model={mine} impl={obs}" with diverged := rep.diverged + 1 })
  | "pstate" =>
    match sess.model with
    | none => (sess, rep.bump "gme.skipped_after_divergence")
    | some s =>
      if !s.pools.contains (arg a "e") then
        (sess, if obs == "bad-op" then rep else { rep.msg s!"DIVERGE line={ln} model=bad-op impl={obs}" with diverged := rep.diverged + 1 })
      else
        let s' := notifyAll s (arg a "e") (arg a "ready" == "1")
        let rep := if s.mes.any (fun p => (s'.mes.find? fun q => q.1 == p.1).any fun q => q.2.current != p.2.current) then rep.bump "gme.routing_changed_by_pool_state" else rep
        let mine := "ok ; " ++ digest s' s'.pools.length
        if mine == obs then ({ sess with model := some s' }, rep) else diverge mine
  | "rpc" =>
    match sess.model with
    | none => (sess, rep.bump "gme.skipped_after_divergence")
    | some s =>
      let name := if arg a "name" == "-" then none else if arg a "name" == "~" then some "" else some (arg a "name")
      let rep := match name with
        | none => rep.bump "gme.rpc_no_name"
        | some n => if (findME s n).isSome then rep.bump "gme.rpc_known_name" else rep.bump "gme.rpc_unknown_name"
      let mine := match rpc s name with | some e => s!"pool={e}" | none => "PANIC"
      if mine == obs then (sess, rep) else diverge mine
  | "close" =>
    match sess.model with
    | none => (sess, rep)
    | some s =>
      let mine := "ok ; " ++ digest (close s) 0
      if mine == obs then ({ sess with model := none, lastImpl := "" }, rep) else diverge mine
  | _ => (sess, rep.msg s!"BAD line={ln}")

end GcpVerif.Driver.GmeDrv
