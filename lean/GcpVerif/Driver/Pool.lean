/-
Driver for the channel-pool model: replays a Go trace on the model, compares events and the
white-box digest line by line, and evaluates the pool monitors (Spec/Pool.lean) on the states the
implementation printed.
-/
import GcpVerif.Model.Pool
import GcpVerif.Spec.Pool
import GcpVerif.Driver.Common
namespace GcpVerif.Driver.PoolDrv
open GcpVerif.Pool GcpVerif.Driver

def stName : CState → String
  | .idle => "IDLE" | .connecting => "CONNECTING" | .ready => "READY" | .tf => "TF" | .shutdown => "SHUTDOWN"

def parseSt : String → Option CState
  | "IDLE" => some .idle | "CONNECTING" => some .connecting | "READY" => some .ready
  | "TF" => some .tf | "SHUTDOWN" => some .shutdown | _ => none

def pickerDesc : Picker → String
  | .errTF => "err:tf"
  | .errNoSc => "err:nosc"
  | .gcp l => "gcp:" ++ ".".intercalate (l.map toString)

def evStr : Event → String
  | .newSc sc a => s!"new sc={sc} a={a}"
  | .newFail => "newfail"
  | .connect sc => s!"connect sc={sc}"
  | .upd sc a => s!"upd sc={sc} a={a}"
  | .remove sc => s!"remove sc={sc}"
  | .state st idx p => s!"state {stName st} picker={idx} {pickerDesc p}"
  | .res r => r
  | .placed sc => s!"placed sc={sc}"
  | .woke c sc => s!"woke call={c} placed sc={sc}"

def sortStrKeys {β : Type} (l : List (String × β)) : List (String × β) := l.mergeSort fun a b => a.1 ≤ b.1
def sortNatKeys {β : Type} (l : List (Nat × β)) : List (Nat × β) := l.mergeSort fun a b => a.1 ≤ b.1

def digest (s : St) : String :=
  let kv (l : List (String × Sc)) := ",".intercalate ((sortStrKeys l).map fun p => s!"{p.1}:{p.2}")
  let sts := ",".intercalate ((sortNatKeys s.scStates).map fun p => s!"{p.1}:{stName p.2}")
  let refs := ",".intercalate ((sortNatKeys s.scRefs).map fun p => s!"{p.1}:{p.2}")
  let rfr := ",".intercalate ((sortNatKeys s.refreshingMap).map fun p => s!"{p.1}:{p.2}")
  let slots := ";".intercalate ((List.range s.refs.length).zip s.refs |>.map fun (i, r) =>
    s!"{i}:{r.subConn}:{r.affinityCnt}:{r.streamsCnt}:{r.lastResp}:{r.deCalls}:{if r.refreshing then 1 else 0}:{r.refreshCnt}")
  s!"dg aff={kv s.affinity} fb={kv s.fallback} st={sts} refs={refs} rfr={rfr} slots={slots} ev={s.nReady}/{s.nConn}/{s.nTF} aggr={stName s.aggr} rr={s.rr} now={s.now}"

def parseMsg (shape : String) : Msg :=
  match shape.splitOn "/" with
  | [k] => { key := k, keys := [] }
  | k :: rest => { key := k, keys := commaList ("/".intercalate rest) }
  | [] => { key := "", keys := [] }

def parseReq (shape : String) : Req :=
  if shape.startsWith "bad:" then .bad else .msg (parseMsg shape)

def parseCtx : String → Option CtxKind
  | "gcp" => some .gcp | "gcpnoreply" => some .gcpNoReply | "none" => some .none | _ => none

def parseErr : String → Option ErrKind
  | "nil" => some .nil | "other" => some .other
  | "other.notfound" => some .other | "other.canceled" => some .other | "other.internal" => some .other
  | "other.exhausted" => some .other | "other.aborted" => some .other | "other.plain" => some .other | "declient" => some .deClient | "deserver" => some .deServer | _ => none

/-- the order of the ready list the implementation published in this step (map iteration order) -/
def orderOf (obs : String) : List Slot :=
  let evs := obs.splitOn " ; "
  match evs.find? (fun e => e.startsWith "state ") with
  | none => []
  | some e =>
    match (e.splitOn " ").getLast? with
    | some d =>
      if d.startsWith "gcp:" then ((d.drop 4).toString.splitOn ".").filterMap String.toNat? else []
    | none => []

def parseOp (toks : List String) (obs : String) : Option Op :=
  match toks with
  | "ccs" :: rest => (arg (args rest) "addrs").toNat?.map .ccs
  | ["reserr"] => some .reserr
  | "scs" :: rest => do
    let a := args rest
    let sc ← (arg a "sc").toNat?
    let st ← parseSt (arg a "st")
    pure (.scs sc st (orderOf obs))
  | "factory" :: rest => (arg (args rest) "fail").toNat?.map .factory
  | "adv" :: rest => (arg (args rest) "ns").toNat?.map .adv
  | "pick" :: rest => do
    let a := args rest
    let call ← (arg a "call").toNat?
    let pn ← (arg a "picker").toNat?
    let ctx ← parseCtx (arg a "ctx")
    let dl : Option Int := if arg a "dl" == "none" then none else (arg a "dl").toInt?
    pure (.pick call pn (arg a "m") ctx dl (parseReq (arg a "req")))
  | "pickhold" :: rest => do
    let a := args rest
    let call ← (arg a "call").toNat?
    let pn ← (arg a "picker").toNat?
    let ctx ← parseCtx (arg a "ctx")
    let dl : Option Int := if arg a "dl" == "none" then none else (arg a "dl").toInt?
    pure (.pickHold call pn (arg a "m") ctx dl (parseReq (arg a "req")))
  | "resume" :: rest => (arg (args rest) "call").toNat?.map .resume
  | "ctxdone" :: rest => (arg (args rest) "call").toNat?.map .ctxdone
  | "done" :: rest => do
    let a := args rest
    let call ← (arg a "call").toNat?
    let err ← parseErr (arg a "err")
    pure (.done call err (parseMsg (arg a "reply")))
  | _ => none

def parseCfg (toks : List String) : Option CfgInput := do
  let a := args toks
  let n (k : String) := (arg a k).toNat?
  let c : Cfg := { min := ← n "min", max := ← n "max", wm := ← n "wm", fb := arg a "fb" == "1",
                   rr := arg a "rr" == "1", uc := ← n "uc", ums := ← n "ums", methods := true }
  match arg a "cfg" with
  | "given" => pure (.given c)
  | "nil" => pure .absent
  | "empty" => pure .absent
  | _ => none

/-! ### reading the implementation's digest back (for the monitors) -/

def parsePairs (s : String) : List (String × String) :=
  (commaList s).filterMap fun item =>
    match item.splitOn ":" with
    | [a, b] => some (a, b)
    | _ => none

def parseDigest (obs : String) : Option ImplView := do
  let evs := obs.splitOn " ; "
  let dg ← evs.find? (fun e => e.startsWith "dg ")
  let a := args (dg.splitOn " ")
  let natPairs (k : String) : List (Nat × Nat) :=
    (parsePairs (arg a k)).filterMap fun (x, y) => do pure (← x.toNat?, ← y.toNat?)
  let slots := ((arg a "slots").splitOn ";").filterMap fun item =>
    match item.splitOn ":" with
    | [i, sc, aff, str, lr, de, rf, rc] => do
      let _ ← i.toNat?
      pure ({ subConn := (sc.toNat?).getD 0, affinityCnt := ← aff.toInt?, streamsCnt := ← str.toInt?,
              lastResp := ← lr.toInt?, deCalls := ← de.toNat?, refreshing := rf == "1", refreshCnt := ← rc.toNat? } : RefSt)
    | _ => none
  let ev := (arg a "ev").splitOn "/"
  pure { affinity := (parsePairs (arg a "aff")).filterMap fun (k, v) => v.toNat?.map fun n => (k, n),
         fallback := (parsePairs (arg a "fb")).filterMap fun (k, v) => v.toNat?.map fun n => (k, n),
         scStates := (parsePairs (arg a "st")).filterMap fun (k, v) => do pure (← k.toNat?, ← parseSt v),
         scRefs := natPairs "refs", refreshingMap := natPairs "rfr", refs := slots,
         nReady := (ev[0]? >>= String.toNat?).getD 0, nConn := (ev[1]? >>= String.toNat?).getD 0,
         nTF := (ev[2]? >>= String.toNat?).getD 0,
         aggr := (parseSt (arg a "aggr")).getD .idle, now := ((arg a "now").toInt?).getD 0 }

structure Sess where
  model : Option St := none
  mon : MonState := {}
  active : Bool := false
  deriving Inhabited

def handle (sess : Sess) (rep : Report) (ln : Nat) (toks : List String) (obs : String) : Sess × Report :=
  match toks with
  | "cfg" :: rest =>
    match parseCfg rest with
    | some ci =>
      let rep := { rep with episodes := rep.episodes + 1 }
      let cfg := initialCfg ci
      if obs == "ok" then ({ model := some (init ci), mon := MonState.start cfg, active := true }, rep)
      else ({}, { rep.msg s!"DIVERGE line={ln} model=ok impl={obs}" with diverged := rep.diverged + 1 })
    | none => ({}, rep.msg s!"BAD line={ln}")
  | "rrburst" :: rest =>
    -- k round-robin BIND picks issued concurrently (all channels READY), each completed with an error
    -- at once: the model explains the outcome by k sequential (pick; completion) pairs — the per-slot
    -- counts and the final state do not depend on the order (C09: the cursor advances atomically)
    if !sess.active then (sess, rep.bump "pool.skipped_after_divergence") else
    let a := args rest
    match (arg a "first").toNat?, (arg a "n").toNat?, (arg a "picker").toNat? with
    | some first, some k, some pn =>
      let rep := rep.bump "pool.concurrent_rr_burst"
      let emptyMsg : Msg := { key := "", keys := [] }
      match sess.model with
      | none =>
        let (mon, _, _) := sess.mon.observe .reserr [] (parseDigest obs)
        ({ sess with mon := mon }, rep)
      | some s0 =>
        let n := s0.refs.length
        -- sequential explanation
        let rrOn : Bool := match s0.cfg with | some c => c.rr && c.methods | none => false
        let go := if !rrOn || !s0.waiters.isEmpty then none else
          (List.range k).foldl (fun (acc : Option (St × List Nat × MonState × List (String × String))) i =>
          match acc with
          | none => none
          | some (s, counts, mon, fails) =>
            let opP : Op := .pick (first + i) pn "bind" .gcp none (.msg emptyMsg)
            let (s1, e1) := step s opP
            match e1 with
            | [.placed sc] =>
              match slotOfSc s.refs sc with
              | some slot =>
                let (mon, f1, _) := mon.observe opP (e1.map evStr) (parseDigest (digest s1))
                let opD : Op := .done (first + i) .other emptyMsg
                let (s2, e2) := step s1 opD
                let (mon, f2, _) := mon.observe opD (e2.map evStr) (parseDigest (digest s2))
                some (s2, counts.modify slot (· + 1), mon, fails ++ f1 ++ f2)
              | none => none
            | _ => none) (some (s0, List.replicate n 0, sess.mon, []))
        match go with
        | some (s', counts, mon, fails) =>
          let mine := " ; ".intercalate [s!"burst={".".intercalate (counts.map toString)}", "ok", digest s']
          let rep := fails.foldl (fun rep (p, c) =>
            { rep.msg s!"MONITOR property={p} clause={c} line={ln}" with monitorFails := rep.monitorFails + 1 }) rep
          if mine == obs then ({ sess with model := some s', mon := mon }, rep)
          else
            -- the picks did not cycle evenly (or something else differs)
            let implCounts := (obs.splitOn " ; ").head?.getD ""
            let rep := if implCounts != s!"burst={".".intercalate (counts.map toString)}" then
                { rep.msg s!"MONITOR property=C09 clause=rr_fair line={ln}" with monitorFails := rep.monitorFails + 1 }
              else rep
            let (mon, _, _) := sess.mon.observe .reserr [] (parseDigest obs)
            ({ sess with model := none, mon := mon },
             { rep.msg s!"DIVERGE line={ln} model={mine} impl={obs}" with diverged := rep.diverged + 1 })
        | none =>
          -- the model says the burst does not apply here
          if obs == "bad-op" then (sess, rep)
          else ({ sess with model := none }, { rep.msg s!"DIVERGE line={ln} model=bad-op impl={obs}" with diverged := rep.diverged + 1 })
    | _, _, _ => (sess, rep.msg s!"BAD line={ln}")
  | "pickpre" :: rest =>
    -- a pick whose context has ended before Pick is called: what the model does for the pick, and — if
    -- that leaves the call waiting for its round-robin slot — for the end of the context right after
    if !sess.active then (sess, rep.bump "pool.skipped_after_divergence") else
    match parseOp ("pick" :: rest) obs with
    | none => (sess, rep.msg s!"BAD line={ln}")
    | some op =>
      let call := match op with | .pick c _ _ _ _ _ => c | _ => 0
      let parts := obs.splitOn " ; "
      let rep := rep.bump "pool.pick_with_ended_context"
      -- monitors: a "nosc" answer to a pick that had to wait is the wait followed by the context's end
      let waitedInModel : Bool := match sess.model with
        | some s => (step s op).2.contains (.res "waiting")
        | none => false
      let report (rep : Report) (fs : List (String × String)) (hs : List String) : Report :=
        let rep := fs.foldl (fun (rep : Report) (pc : String × String) =>
          { rep.msg s!"MONITOR property={pc.1} clause={pc.2} line={ln}" with monitorFails := rep.monitorFails + 1 }) rep
        hs.foldl (fun (rep : Report) h => rep.bump h) rep
      let mr : MonState × Report :=
        if waitedInModel then
          -- the pick drew its round-robin slot and had to wait; the ended context made it return at once
          let isRes (e : String) : Bool := e.startsWith "placed sc=" || e == "nosc" || e == "tf" || e == "keyerr"
          let evs1 := (parts.filter fun e => !isRes e && !e.startsWith "dg ") ++ ["waiting"]
          let (mon, f1, h1) := sess.mon.observe op evs1 none
          let (mon, f2, h2) := mon.observe (.ctxdone call) (parts.filter isRes) (parseDigest obs)
          (mon, report rep (f1 ++ f2) (h1 ++ h2))
        else
          let (mon, f1, h1) := sess.mon.observe op parts (parseDigest obs)
          (mon, report rep f1 h1)
      let mon := mr.1
      let rep := mr.2
      match sess.model with
      | none => ({ sess with mon := mon }, rep)
      | some s =>
        let (s1, e1) := step s op
        let (s2, evs) := if e1.contains (.res "waiting") then
            let (s2, e2) := step s1 (.ctxdone call)
            (s2, (e1.filter (· != .res "waiting")) ++ e2)
          else (s1, e1)
        let mine := if evs == [.res "bad-op"] then "bad-op" else " ; ".intercalate (evs.map evStr ++ [digest s2])
        if mine == obs then ({ sess with model := some s2, mon := mon }, rep)
        else ({ sess with model := none, mon := mon },
              { rep.msg s!"DIVERGE line={ln} model={mine} impl={obs}" with diverged := rep.diverged + 1 })
  | "rrjump" :: rest =>
    -- stand-in for d round-robin BIND calls picked and completed (the harness advances the cursor by d): the
    -- model's cursor and the monitor's count of BIND picks advance by d; everything else is as before
    if !sess.active then (sess, rep.bump "pool.skipped_after_divergence") else
    if obs == "bad-op" then (sess, rep) else
    match (arg (args rest) "d").toNat? with
    | none => (sess, rep.msg s!"BAD line={ln}")
    | some d =>
      let rep := rep.bump "pool.rr_cursor_fast_forward"
      let mon := { sess.mon with nBind := sess.mon.nBind + d, view := (parseDigest obs).orElse fun _ => sess.mon.view }
      match sess.model with
      | none => ({ sess with mon := mon }, rep)
      | some s =>
        let s' := { s with rr := (s.rr + d) % 2^64 }
        let mine := "ok ; " ++ digest s'
        if mine == obs then ({ sess with model := some s', mon := mon }, rep)
        else ({ sess with model := none, mon := mon }, { rep.msg s!"DIVERGE line={ln} model={mine} impl={obs}" with diverged := rep.diverged + 1 })
  | "scanpark" :: rest =>
    -- a plain pick stopped in the middle of its least-loaded scan while other calls complete: the outcome must be
    -- that of the pick followed by the completions, or of the completions followed by the pick (C02)
    if !sess.active then (sess, rep.bump "pool.skipped_after_divergence") else
    if obs == "bad-op" then (sess, rep) else
    let a := args rest
    match (arg a "call").toNat?, (arg a "picker").toNat? with
    | some call, some pn =>
      let ids := ((arg a "dones").splitOn "+").filterMap String.toNat?
      let pickOp : Op := .pick call pn "plain" .gcp none (.msg { key := "", keys := [] })
      let doneOps : List Op := ids.map fun i => .done i .other { key := "", keys := [] }
      let parts := obs.splitOn " ; "
      let how := ((parts.find? (·.startsWith "dones=")).map fun e => (e.drop 6).toString).getD "?"
      let rep := rep.bump s!"pool.completions_during_scan_{how}"
      let explain (ops : List Op) : Option (St × String) :=
        sess.model.map fun s =>
          let (s', evs) := ops.foldl (fun (acc : St × List String) op =>
            let (s1, e1) := step acc.1 op
            (s1, acc.2 ++ (e1.map evStr).filter (· != "ok"))) (s, [])
          (s', " ; ".intercalate (evs ++ [s!"dones={how}", digest s']))
      let pickFirst := explain (pickOp :: doneOps)
      let donesFirst := explain (doneOps ++ [pickOp])
      -- monitors: in the order that explains the outcome; if none does, completions first (they were started while the
      -- pick had not chosen yet)
      -- (only the last operation of the sequence is judged against the printed state; there is none for the ones before)
      let feedOps (mon : MonState) (rep : Report) (ops : List (Op × List String)) : MonState × Report :=
        (ops.zipIdx).foldl (fun (acc : MonState × Report) (oei : (Op × List String) × Nat) =>
          let oe := oei.1
          let (mon, fails, hits) := acc.1.observe oe.1 oe.2 (if oei.2 + 1 == ops.length then parseDigest obs else none)
          let rep := fails.foldl (fun rep (p, c) =>
            { rep.msg s!"MONITOR property={p} clause={c} line={ln}" with monitorFails := rep.monitorFails + 1 }) acc.2
          (mon, hits.foldl (fun rep h => rep.bump h) rep)) (mon, rep)
      let pickEvs := parts.filter fun e => e.startsWith "placed" || e == "nosc" || e.startsWith "new sc=" || e.startsWith "connect sc="
      let doneFeed : List (Op × List String) := doneOps.map fun o => (o, ["ok"])
      let agrees (x : Option (St × String)) : Bool := match x with | some (_, l) => l == obs | none => false
      if agrees pickFirst then
        let (mon, rep) := feedOps sess.mon rep ((pickOp, pickEvs) :: doneFeed)
        ({ sess with model := pickFirst.map (·.1), mon := mon }, rep)
      else if agrees donesFirst then
        let (mon, rep) := feedOps sess.mon rep (doneFeed ++ [(pickOp, pickEvs)])
        ({ sess with model := donesFirst.map (·.1), mon := mon }, rep)
      else
        let (mon, rep) := feedOps sess.mon rep (doneFeed ++ [(pickOp, pickEvs)])
        let shown := match pickFirst with | some (_, l) => l | none => "(model lost)"
        ({ sess with model := none, mon := mon },
         if sess.model.isSome then { rep.msg s!"DIVERGE line={ln} model={shown} impl={obs}" with diverged := rep.diverged + 1 } else rep)
    | _, _ => (sess, rep.msg s!"BAD line={ln}")
  | "dejump" :: rest =>
    -- stand-in for d deadline-exceeded completions that were counted on the channel of that slot (the harness adds d
    -- to its counter): the model's counter and the monitor's own count advance by d
    if !sess.active then (sess, rep.bump "pool.skipped_after_divergence") else
    if obs == "bad-op" then (sess, rep) else
    match (arg (args rest) "slot").toNat?, (arg (args rest) "d").toNat? with
    | some slot, some d =>
      let rep := rep.bump "pool.de_counter_fast_forward"
      -- (the monitors' last view of the printed state moves on too: the next operation is judged against this one)
      let mon := { sess.mon with detectors := sess.mon.detectors.modify slot fun x => { x with de := x.de + d },
                                 view := (parseDigest obs).orElse fun _ => sess.mon.view }
      match sess.model with
      | none => ({ sess with mon := mon }, rep)
      | some s =>
        let s' := modRef s slot fun r => { r with deCalls := min (r.deCalls + d) 4294967295 }
        let mine := "ok ; " ++ digest s'
        if mine == obs then ({ sess with model := some s', mon := mon }, rep)
        else ({ sess with model := none, mon := mon }, { rep.msg s!"DIVERGE line={ln} model={mine} impl={obs}" with diverged := rep.diverged + 1 })
    | _, _ => (sess, rep.msg s!"BAD line={ln}")
  | ["other"] =>
    -- another channel of the process builds its own balancer: this one is untouched
    if !sess.active then (sess, rep.bump "pool.skipped_after_divergence") else
    let rep := rep.bump "pool.other_balancer_built"
    match sess.model with
    | none => (sess, rep)
    | some s =>
      let mine := "ok ; " ++ digest s
      if mine == obs then (sess, rep)
      else ({ sess with model := none }, { rep.msg s!"DIVERGE line={ln} model={mine} impl={obs}" with diverged := rep.diverged + 1 })
  | "doneccs" :: rest =>
    -- a completion with a client-side deadline error and a resolver update that arrives while the
    -- completion's refresh is creating the replacement connection: refresh holds the balancer lock
    -- throughout, so the outcome is that of one of the two sequential orders (C20: the replacement
    -- ends up with the new list and is asked to reconnect)
    if !sess.active then (sess, rep.bump "pool.skipped_after_divergence") else
    let a := args rest
    match (arg a "call").toNat?, (arg a "addrs").toNat? with
    | some call, some ver =>
      if obs == "bad-op" then (sess, rep) else
      let opDone : Op := .done call .deClient { key := "", keys := [] }
      let opCcs : Op := .ccs ver
      let parts := obs.splitOn " ; "
      let rep := rep.bump "pool.resolver_update_during_refresh_creation"
      let explain (first second : Op) : Option (St × St × List String × List String × String) :=
        match sess.model with
        | none => none
        | some s =>
          let (s1, e1) := step s first
          let (s2, e2) := step s1 second
          let strs1 := e1.map evStr
          let strs2 := e2.map evStr
          let line := " ; ".intercalate ((strs1.filter (· != "ok")) ++ (strs2.filter (· != "ok")) ++ ["ok", digest s2])
          some (s1, s2, strs1, strs2, line)
      let dc := explain opDone opCcs
      let cd := explain opCcs opDone
      let ok (x : Option (St × St × List String × List String × String)) : Bool :=
        match x with | some (_, _, _, _, line) => line == obs | none => false
      let chosen := if ok dc then some (true, dc) else if ok cd then some (false, cd) else none
      let feed (mon : MonState) (rep : Report) (op1 op2 : Op) (evs1 evs2 : List String) (mid : Option ImplView) : MonState × Report :=
        let (mon, fails1, hits1) := mon.observe op1 evs1 mid
        let (mon, fails2, hits2) := mon.observe op2 evs2 (parseDigest obs)
        let rep := (fails1 ++ fails2).foldl (fun (rep : Report) (pc : String × String) =>
          { rep.msg s!"MONITOR property={pc.1} clause={pc.2} line={ln}" with monitorFails := rep.monitorFails + 1 }) rep
        (mon, (hits1 ++ hits2).foldl (fun (rep : Report) h => rep.bump h) rep)
      match chosen with
      | some (doneFirst, some (s1, s2, strs1, strs2, _)) =>
        let (o1, o2) := if doneFirst then (opDone, opCcs) else (opCcs, opDone)
        let (mon, rep) := feed sess.mon rep o1 o2 strs1 strs2 (parseDigest (digest s1))
        ({ sess with model := some s2, mon := mon }, rep)
      | _ =>
        -- no order explains it: the completion gets the creation events, the update the rest
        let evs := parts.filter fun e => !(e.startsWith "dg ") && e != "ok"
        let isCreate (e : String) : Bool := e.startsWith "new " || e == "newfail"
        let createIdx := (evs.zipIdx.filter fun p => isCreate p.1).map (·.2)
        let evsDone := match createIdx.head? with
          | some i => (evs.drop i).take 2
          | none => []
        let evsCcs := evs.filter fun e => !evsDone.contains e
        let (mon, rep) := feed sess.mon rep opDone opCcs (evsDone ++ ["ok"]) (evsCcs ++ ["ok"]) none
        let shown := match dc with | some (_, _, _, _, line) => line | none => "(model lost)"
        ({ sess with model := none, mon := mon },
         if sess.model.isSome then { rep.msg s!"DIVERGE line={ln} model={shown.take 400} impl={obs.take 400}" with diverged := rep.diverged + 1 } else rep)
    | _, _ => (sess, rep.msg s!"BAD line={ln}")
  | "doneswap" :: rest =>
    -- a successful BIND completion overlaps with the report that completes a refresh (the swap): the
    -- outcome must be that of one of the two sequential orders (C01 / C07: the keys follow the channel)
    if !sess.active then (sess, rep.bump "pool.skipped_after_divergence") else
    let a := args rest
    match (arg a "call").toNat?, (arg a "sc").toNat? with
    | some call, some sc =>
      if obs == "bad-op" then (sess, rep) else
      let opDone : Op := .done call .nil (parseMsg (arg a "reply"))
      let opScs : Op := .scs sc .ready (orderOf obs)
      let parts := obs.splitOn " ; "
      let rep := rep.bump "pool.completion_overlaps_swap"
      let explain (first second : Op) : Option (St × St × List String × List String × String) :=
        match sess.model with
        | none => none
        | some s =>
          let (s1, e1) := step s first
          let (s2, e2) := step s1 second
          let strs1 := e1.map evStr
          let strs2 := e2.map evStr
          let line := " ; ".intercalate ((strs1.filter (· != "ok")) ++ (strs2.filter (· != "ok")) ++ ["ok", digest s2])
          some (s1, s2, strs1, strs2, line)
      let sd := explain opScs opDone
      let ds := explain opDone opScs
      let ok (x : Option (St × St × List String × List String × String)) : Bool :=
        match x with | some (_, _, _, _, line) => line == obs | none => false
      let chosen := if ok sd then some (true, sd) else if ok ds then some (false, ds) else none
      let feed (mon : MonState) (rep : Report) (op1 op2 : Op) (evs1 evs2 : List String) (mid : Option ImplView) : MonState × Report :=
        let (mon, fails1, hits1) := mon.observe op1 evs1 mid
        let (mon, fails2, hits2) := mon.observe op2 evs2 (parseDigest obs)
        let rep := (fails1 ++ fails2).foldl (fun rep (p, c) =>
          { rep.msg s!"MONITOR property={p} clause={c} line={ln}" with monitorFails := rep.monitorFails + 1 }) rep
        (mon, (hits1 ++ hits2).foldl (fun rep h => rep.bump h) rep)
      match chosen with
      | some (scsFirst, some (s1, s2, strs1, strs2, _)) =>
        let (o1, o2) := if scsFirst then (opScs, opDone) else (opDone, opScs)
        let (mon, rep) := feed sess.mon rep o1 o2 strs1 strs2 (parseDigest (digest s1))
        ({ sess with model := some s2, mon := mon }, rep)
      | _ =>
        -- no order explains it: the monitors see the report (with all events) and then the completion
        let evs := parts.filter fun e => !(e.startsWith "dg ") && e != "ok"
        let (mon, rep) := feed sess.mon rep opScs opDone (evs ++ ["ok"]) ["ok"] none
        let shown := match sd with | some (_, _, _, _, line) => line | none => "(model lost)"
        ({ sess with model := none, mon := mon },
         if sess.model.isSome then { rep.msg s!"DIVERGE line={ln} model={shown.take 400} impl={obs.take 400}" with diverged := rep.diverged + 1 } else rep)
    | _, _ => (sess, rep.msg s!"BAD line={ln}")
  | "ccsflaky" :: rest =>
    -- a resolver update during which the connection factory works once or twice more and then fails for good
    -- (a ClientConn that is closing). The model's factory fails from the first creation on, so this step is
    -- outside it: the model is dropped without a divergence and the monitors go on alone (C06: the call returns)
    let a := args rest
    match (arg a "addrs").toNat? with
    | none => (sess, rep.msg s!"BAD line={ln}")
    | some ver =>
      if obs == "bad-op" || obs == "dead" then (sess, rep) else
      let evs := (obs.splitOn " ; ").filter fun e => !(e.startsWith "dg ")
      -- the failures of this step are injected ones (the monitor counts creation failures against those)
      let nFail := (evs.filter (· == "newfail")).length
      let (mon, fails, hits) := { sess.mon with failN := sess.mon.failN + nFail }.observe (.ccs ver) evs (parseDigest obs)
      let mon := { mon with failN := sess.mon.failN - min sess.mon.failN nFail }
      let rep := fails.foldl (fun (rep : Report) (p, c) =>
        { rep.msg s!"MONITOR property={p} clause={c} line={ln}" with monitorFails := rep.monitorFails + 1 }) rep
      let rep := hits.foldl (fun (rep : Report) h => rep.bump h) rep
      ({ sess with model := none, mon := mon }, rep.bump "pool.factory_fails_after_first_successes")
  | "donepark" :: rest =>
    -- a deadline-exceeded completion (a) that has decided to refresh is stopped in front of the balancer lock while
    -- another one (b) completes, the replacement (if exactly one refresh is in flight) reports READY and takes over,
    -- and a third one (c) completes; then a continues. The outcome must be that of the three sequential steps with
    -- a's completion, as one atomic step, somewhere among them (C07: the stale decision must not refresh again)
    if !sess.active then (sess, rep.bump "pool.skipped_after_divergence") else
    let a := args rest
    match (arg a "a").toNat?, (arg a "b").toNat?, (arg a "c").toNat? with
    | some ca, some cb, some cc =>
      if obs == "bad-op" then (sess, rep.bump "pool.donepark_not_run") else
      let mk (c : Nat) : Op := .done c .deClient { key := "", keys := [] }
      let rep := rep.bump "pool.stale_refresh_decision_across_refresh_swap_and_count"
      -- the steps other than a's completion; `none` stands for the READY report, whose connection is only known then
      let mids : List (Option Op) := [some (mk cb), none, some (mk cc)]
      let seqAt (p : Nat) : List (Option Op) := mids.take p ++ [some (mk ca)] ++ mids.drop p
      let runSeq (l : List (Option Op)) : Option (St × List (Op × List String × St) × String) :=
        match sess.model with
        | none => none
        | some s =>
          let (s, acc) := l.foldl (fun (st : St × List (Op × List String × St)) (o : Option Op) =>
            let (s, acc) := st
            let op? : Option Op := match o with
              | some op => some op
              | none => match s.refreshingMap with
                | [(sc, _)] => some (.scs sc .ready (orderOf obs))
                | _ => none
            match op? with
            | none => (s, acc)
            | some op =>
              let (s', e) := step s op
              (s', acc ++ [(op, e.map evStr, s')])) (s, [])
          let evs := acc.flatMap fun (_, e, _) => e.filter (· != "ok")
          some (s, acc, " ; ".intercalate (evs ++ ["ok", digest s]))
      let tries := [0, 1, 2, 3].filterMap fun p => runSeq (seqAt p)
      match tries.find? (fun (_, _, line) => line == obs) with
      | some (s', acc, _) =>
        let n := acc.length
        let (mon, rep, _) := acc.foldl (fun (st : MonState × Report × Nat) (x : Op × List String × St) =>
          let (mon, rep, i) := st
          let (op, evs, si) := x
          let view := if i + 1 == n then parseDigest obs else parseDigest (digest si)
          let (mon, fails, hits) := mon.observe op evs view
          let rep := fails.foldl (fun rep (p, c) =>
            { rep.msg s!"MONITOR property={p} clause={c} line={ln}" with monitorFails := rep.monitorFails + 1 }) rep
          (mon, hits.foldl (fun rep h => rep.bump h) rep, i + 1)) (sess.mon, rep, 0)
        ({ sess with model := some s', mon := mon }, rep)
      | none =>
        -- no position explains it: the monitors see b, the report, c, and then a with whatever is left of the events
        let parts := obs.splitOn " ; "
        let evs := parts.filter fun e => !(e.startsWith "dg ") && e != "ok"
        let base := runSeq mids
        let (mon, rep, used) : MonState × Report × Nat := match base with
          | some (_, acc, _) =>
            acc.foldl (fun (st : MonState × Report × Nat) (x : Op × List String × St) =>
              let (mon, rep, used) := st
              let (op, e, si) := x
              let mine := e.filter (· != "ok")
              let (mon, fails, hits) := mon.observe op (mine ++ ["ok"]) (parseDigest (digest si))
              let rep : Report := fails.foldl (fun (rep : Report) (p, c) =>
                { rep.msg s!"MONITOR property={p} clause={c} line={ln}" with monitorFails := rep.monitorFails + 1 }) rep
              (mon, hits.foldl (fun (rep : Report) h => rep.bump h) rep, used + mine.length)) (sess.mon, rep, 0)
          | none => (sess.mon, rep, 0)
        let (mon, fails, hits) := mon.observe (mk ca) (evs.drop used ++ ["ok"]) (parseDigest obs)
        let rep := fails.foldl (fun rep (p, c) =>
          { rep.msg s!"MONITOR property={p} clause={c} line={ln}" with monitorFails := rep.monitorFails + 1 }) rep
        let rep := hits.foldl (fun rep h => rep.bump h) rep
        let shown := match tries.head? with | some (_, _, line) => line | none => "(model lost)"
        ({ sess with model := none, mon := mon },
         if sess.model.isSome then { rep.msg s!"DIVERGE line={ln} model={shown.take 400} impl={obs.take 400}" with diverged := rep.diverged + 1 } else rep)
    | _, _, _ => (sess, rep.msg s!"BAD line={ln}")
  | "scsdone" :: rest =>
    -- a deadline-exceeded completion decides about a refresh while the report that completes the previous
    -- refresh is being processed: the outcome must be that of one of the two sequential orders (C07: no
    -- refresh within the window that starts at the swap)
    if !sess.active then (sess, rep.bump "pool.skipped_after_divergence") else
    let a := args rest
    match (arg a "call").toNat?, (arg a "sc").toNat? with
    | some call, some sc =>
      if obs == "bad-op" then (sess, rep) else
      let opDone : Op := .done call .deClient { key := "", keys := [] }
      let opScs : Op := .scs sc .ready (orderOf obs)
      let parts := obs.splitOn " ; "
      let rep := rep.bump "pool.stale_refresh_decision_across_swap"
      let explain (first second : Op) : Option (St × St × List String × List String × String) :=
        match sess.model with
        | none => none
        | some s =>
          let (s1, e1) := step s first
          let (s2, e2) := step s1 second
          let strs1 := e1.map evStr
          let strs2 := e2.map evStr
          let line := " ; ".intercalate ((strs1.filter (· != "ok")) ++ (strs2.filter (· != "ok")) ++ ["ok", digest s2])
          some (s1, s2, strs1, strs2, line)
      let sd := explain opScs opDone
      let ds := explain opDone opScs
      let ok (x : Option (St × St × List String × List String × String)) : Bool :=
        match x with | some (_, _, _, _, line) => line == obs | none => false
      let chosen := if ok sd then some (true, sd) else if ok ds then some (false, ds) else none
      let feed (mon : MonState) (rep : Report) (op1 op2 : Op) (evs1 evs2 : List String) (mid : Option ImplView) : MonState × Report :=
        let (mon, fails1, hits1) := mon.observe op1 evs1 mid
        let (mon, fails2, hits2) := mon.observe op2 evs2 (parseDigest obs)
        let rep := (fails1 ++ fails2).foldl (fun rep (p, c) =>
          { rep.msg s!"MONITOR property={p} clause={c} line={ln}" with monitorFails := rep.monitorFails + 1 }) rep
        (mon, (hits1 ++ hits2).foldl (fun rep h => rep.bump h) rep)
      match chosen with
      | some (scsFirst, some (s1, s2, strs1, strs2, _)) =>
        let (o1, o2) := if scsFirst then (opScs, opDone) else (opDone, opScs)
        let (mon, rep) := feed sess.mon rep o1 o2 strs1 strs2 (parseDigest (digest s1))
        ({ sess with model := some s2, mon := mon }, rep)
      | _ =>
        -- no order explains it: the monitors see the report (with all events) and then the completion
        let evs := parts.filter fun e => !(e.startsWith "dg ") && e != "ok"
        let (mon, rep) := feed sess.mon rep opScs opDone (evs ++ ["ok"]) ["ok"] none
        let shown := match sd with | some (_, _, _, _, line) => line | none => "(model lost)"
        ({ sess with model := none, mon := mon },
         if sess.model.isSome then { rep.msg s!"DIVERGE line={ln} model={shown.take 400} impl={obs.take 400}" with diverged := rep.diverged + 1 } else rep)
    | _, _ => (sess, rep.msg s!"BAD line={ln}")
  | "done2" :: rest =>
    -- two completions with a client-side deadline error, run concurrently by the harness while it
    -- stalls the balancer lock: the model must explain the outcome by some order of two atomic
    -- completions (C07: one replacement per channel)
    if !sess.active then (sess, rep.bump "pool.skipped_after_divergence") else
    let a := args rest
    match (arg a "a").toNat?, (arg a "b").toNat? with
    | some ca, some cb =>
      if obs == "bad-op" && arg a "park" == "1" then (sess, rep.bump "pool.no_point_to_stop_the_detector_at")   -- test and count are one critical section: nothing was called
      else if obs == "bad-op" then
        match sess.model with
        | some s => if (s.calls.any (·.id == ca)) && (s.calls.any (·.id == cb)) && ca != cb
                    then ({ sess with model := none }, { rep.msg s!"DIVERGE line={ln} model=ok impl=bad-op" with diverged := rep.diverged + 1 })
                    else (sess, rep)
        | none => (sess, rep)
      else
      -- `park=1 errb=nil`: b is a successful completion that runs while a is stopped inside the detector
      let okB := arg a "errb" == "nil"
      let mk (c : Nat) : Op := if okB && c == cb then .done c .nil { key := "", keys := [] } else .done c .deClient { key := "", keys := [] }
      let parts := obs.splitOn " ; "
      let rep := rep.bump (if okB then "pool.response_during_deadline_completion" else "pool.concurrent_completion_pair")
      let explain (first second : Op) : Option (St × St × List String × List String × String) :=
        match sess.model with
        | none => none
        | some s =>
          let (s1, e1) := step s first
          let (s2, e2) := step s1 second
          let strs1 := e1.map evStr
          let strs2 := e2.map evStr
          -- the implementation prints: events of both, one "ok", events of the wake-ups, digest
          let line := " ; ".intercalate ((strs1.filter (· != "ok")) ++ (strs2.filter (· != "ok")) ++ ["ok", digest s2])
          some (s1, s2, strs1, strs2, line)
      let canon (l : String) : String := l
      let ab := explain (mk ca) (mk cb)
      let ba := explain (mk cb) (mk ca)
      let ok (x : Option (St × St × List String × List String × String)) : Bool :=
        match x with | some (_, _, _, _, line) => canon line == canon obs | none => false
      let chosen := if ok ab then some (true, ab) else if ok ba then some (false, ba) else none
      let feed (mon : MonState) (rep : Report) (op1 op2 : Op) (evs1 evs2 : List String) (mid : Option ImplView) : MonState × Report :=
        let (mon, fails1, hits1) := mon.observe op1 evs1 mid
        let (mon, fails2, hits2) := mon.observe op2 evs2 (parseDigest obs)
        let rep := (fails1 ++ fails2).foldl (fun rep (p, c) =>
          { rep.msg s!"MONITOR property={p} clause={c} line={ln}" with monitorFails := rep.monitorFails + 1 }) rep
        (mon, (hits1 ++ hits2).foldl (fun rep h => rep.bump h) rep)
      match chosen with
      | some (abOrder, some (s1, s2, strs1, strs2, _)) =>
        let (o1, o2) := if abOrder then (mk ca, mk cb) else (mk cb, mk ca)
        let (mon, rep) := feed sess.mon rep o1 o2 strs1 strs2 (parseDigest (digest s1))
        ({ sess with model := some s2, mon := mon }, rep)
      | _ =>
        -- no order explains it: the monitors see the creation events split between the two completions
        let evs := parts.filter fun e => !(e.startsWith "dg ") && e != "ok"
        let creations := evs.filter fun e => e.startsWith "new "
        let (evsA, evsB) :=
          if creations.length ≥ 2 then
            -- the second creation (and what follows it) belongs to the second completion
            let idx := (evs.zipIdx.filter fun p => p.1.startsWith "new ").map (·.2)
            let cut := idx.getD 1 evs.length
            (evs.take cut ++ ["ok"], evs.drop cut ++ ["ok"])
          else (evs ++ ["ok"], ["ok"])
        let (mon, rep) := feed sess.mon rep (mk ca) (mk cb) evsA evsB none
        let shown := match ab with | some (_, _, _, _, line) => line | none => "(model lost)"
        ({ sess with model := none, mon := mon },
         if sess.model.isSome then { rep.msg s!"DIVERGE line={ln} model={shown.take 300} impl={obs.take 300}" with diverged := rep.diverged + 1 } else rep)
    | _, _ => (sess, rep.msg s!"BAD line={ln}")
  | "pick2" :: rest =>
    -- two picks, on one picker or on two (F31), run concurrently by the harness while it stalls the balancer
    -- lock: the model must explain the outcome by *some* order of two atomic picks (C02)
    if !sess.active then (sess, rep.bump "pool.skipped_after_divergence") else
    let a := args rest
    match (arg a "a").toNat?, (arg a "b").toNat?, (arg a "picker").toNat? with
    | some ca, some cb, some pn =>
      let pn2 := (arg a "picker2").toNat?.getD pn
      let method := if arg a "m" == "" then "plain" else arg a "m"
      let reqOf (k : String) : Req := if arg a k == "" then .msg { key := "", keys := [] } else parseReq (arg a k)
      let mk (c : Nat) : Op := if c == ca then .pick c pn method .gcp none (reqOf "req") else .pick c pn2 method .gcp none (reqOf "req2")
      let parts := obs.splitOn " ; "
      let resOf (tag : String) : String :=
        match parts.find? (fun e => e.startsWith tag) with
        | some e => (e.drop tag.length).toString
        | none => "?"
      let resA := resOf "a:"
      let resB := resOf "b:"
      let implEvents := parts.filter fun e => !(e.startsWith "a:" || e.startsWith "b:" || e.startsWith "dg ")
      let rep := rep.bump "pool.concurrent_pick_pair"
      let rep := if pn2 != pn then rep.bump (if method == "plain" then "pool.concurrent_plain_picks_on_two_pickers" else "pool.concurrent_keyed_picks_on_two_pickers") else rep
      -- the two sequential explanations
      let explain (first second : Op) (tagF tagS : String) : Option (St × St × List String × List String × String) :=
        match sess.model with
        | none => none
        | some s =>
          let (s1, e1) := step s first
          let (s2, e2) := step s1 second
          let strs1 := e1.map evStr
          let strs2 := e2.map evStr
          let ev1 := strs1.dropLast
          let ev2 := strs2.dropLast
          let r1 := strs1.getLast?.getD "?"
          let r2 := strs2.getLast?.getD "?"
          let line := " ; ".intercalate (ev1 ++ ev2 ++ (if tagF == "a:" then [s!"a:{r1}", s!"b:{r2}"] else [s!"a:{r2}", s!"b:{r1}"]) ++ [digest s2])
          some (s1, s2, strs1, strs2, line)
      let ab := explain (mk ca) (mk cb) "a:" "b:"
      let ba := explain (mk cb) (mk ca) "b:" "a:"
      let pick (x : Option (St × St × List String × List String × String)) : Bool :=
        match x with | some (_, _, _, _, line) => line == obs | none => false
      let chosen := if pick ab then some (true, ab) else if pick ba then some (false, ba) else none
      -- monitors: feed the two picks one after the other; between them the view is the model's
      -- intermediate state when an order explains the outcome, else the printed state before the
      -- pair with the first placement counted
      let feed (mon : MonState) (rep : Report) (op1 op2 : Op) (evs1 evs2 : List String) (mid : Option ImplView) : MonState × Report :=
        let (mon, fails1, hits1) := mon.observe op1 evs1 mid
        let (mon, fails2, hits2) := mon.observe op2 evs2 (parseDigest obs)
        let rep := (fails1 ++ fails2).foldl (fun rep (p, c) =>
          { rep.msg s!"MONITOR property={p} clause={c} line={ln}" with monitorFails := rep.monitorFails + 1 }) rep
        (mon, (hits1 ++ hits2).foldl (fun rep h => rep.bump h) rep)
      match chosen with
      | some (abOrder, some (s1, s2, strs1, strs2, _)) =>
        let (o1, o2) := if abOrder then (mk ca, mk cb) else (mk cb, mk ca)
        let (mon, rep) := feed sess.mon rep o1 o2 strs1 strs2 (parseDigest (digest s1))
        ({ sess with model := some s2, mon := mon }, rep)
      | _ =>
        -- no order of two atomic picks explains what happened
        let bump (v : ImplView) (res : String) : ImplView :=
          match (res.splitOn "sc=")[1]? >>= String.toNat? with
          | some sc => match slotOfSc v.refs sc with
            | some slot => { v with refs := v.refs.modify slot fun r => { r with streamsCnt := r.streamsCnt + 1 } }
            | none => v
          | none => v
        -- the monitors judge the pair in the order in which they have the least to object (a monitor failure
        -- must not come from the order the driver happened to feed the two picks in): a then b, or b then a,
        -- the balancer events going to the pick that was told to wait if exactly one was
        let countFails (o1 o2 : Op) (e1 e2 : List String) (mid : Option ImplView) : Nat :=
          let (mon1, f1, _) := sess.mon.observe o1 e1 mid
          let (_, f2, _) := mon1.observe o2 e2 (parseDigest obs)
          f1.length + f2.length
        let (evsA, evsB) := if resB == "nosc" && resA != "nosc" then ([resA], implEvents ++ [resB]) else (implEvents ++ [resA], [resB])
        let midA := sess.mon.view.map fun v => bump v resA
        let midB := sess.mon.view.map fun v => bump v resB
        let abFirst := countFails (mk ca) (mk cb) evsA evsB midA ≤ countFails (mk cb) (mk ca) evsB evsA midB
        let (mon, rep) := if abFirst then feed sess.mon rep (mk ca) (mk cb) evsA evsB midA
                          else feed sess.mon rep (mk cb) (mk ca) evsB evsA midB
        let shown := match ab with | some (_, _, _, _, line) => line | none => "(model lost)"
        ({ sess with model := none, mon := mon },
         if sess.model.isSome then { rep.msg s!"DIVERGE line={ln} model={shown} impl={obs}" with diverged := rep.diverged + 1 } else rep)
    | _, _, _ => (sess, rep.msg s!"BAD line={ln}")
  | _ =>
    if !sess.active then (sess, rep.bump "pool.skipped_after_divergence") else
    -- `done … err=discarded`: Done(DoneInfo{}) — to the code (and so to the model) a successful completion with
    -- an empty reply; to the monitors the discarded pick it really is
    let isDiscard := toks.head? == some "done" && toks.contains "err=discarded"
    let toks := if isDiscard then toks.map fun t => if t == "err=discarded" then "err=nil" else t else toks
    let sess := if isDiscard then { sess with mon := { sess.mon with discardNext := true } } else sess
    match parseOp toks obs with
    | none => (sess, rep.msg s!"BAD line={ln}")
    | some op =>
      -- a completion needs the pick mutex (F39: the stream counters change only under it): while a pick is stopped
      -- holding it the completion would wait; the harness does not start it then ("bad-op" = nothing was called)
      let waits := (match op with | .done _ _ _ => true | _ => false) &&
                   (match sess.model with | some s => !s.held.isEmpty | none => false)
      if waits && obs == "bad-op" then (sess, rep.bump "pool.completion_would_wait_for_stopped_pick") else
      -- likewise a round-robin BIND pick that waits for its channel needs the pick mutex when it returns: the harness
      -- stops no pick while such a pick waits
      let rrWaits := (match op with | .pickHold _ _ _ _ _ _ => true | _ => false) &&
                     (match sess.model with | some s => !s.waiters.isEmpty | none => false)
      if rrWaits && obs == "bad-op" then (sess, rep.bump "pool.no_pick_stopped_while_rr_pick_waits") else
      -- monitors and evidence counters judge what the implementation printed
      let monOp : Op := match op with
        | .pickHold call pn m ctx dl req => if (obs.splitOn " ; ").contains "held" then op else .pick call pn m ctx dl req
        | _ => op
      let (mon, fails, hits) := sess.mon.observe monOp (obs.splitOn " ; ") (parseDigest obs)
      let rep := fails.foldl (fun rep (p, c) =>
        { rep.msg s!"MONITOR property={p} clause={c} line={ln}" with monitorFails := rep.monitorFails + 1 }) rep
      let rep := hits.foldl (fun rep h => rep.bump h) rep
      match sess.model with
      | none => ({ sess with mon := mon }, rep)
      | some s =>
        let (s', evs) := step s op
        let dead := evs.any fun e => e == .res "PANIC"
        -- an operation that does not apply (unknown call id, unpublished picker) is "bad-op" on both sides
        let mine := if evs == [.res "bad-op"] then "bad-op"
                    else " ; ".intercalate (evs.map evStr ++ (if dead then [] else [digest s']))
        if mine == obs then ({ sess with model := some s', mon := mon }, rep)
        else ({ sess with model := none, mon := mon },
              { rep.msg s!"DIVERGE line={ln} model={mine} impl={obs}" with diverged := rep.diverged + 1 })

end GcpVerif.Driver.PoolDrv
