/- Driver for the configuration model (C17). JSON text is parsed with Lean's JSON parser. -/
import Lean.Data.Json
import GcpVerif.Model.Config
import GcpVerif.Generated.Consts
import GcpVerif.Driver.Common
import GcpVerif.Driver.KeyPath
namespace GcpVerif.Driver.CfgDrv
open GcpVerif.Config GcpVerif.Driver
open GcpVerif.Driver.KpDrv (hexToString stringToHex)

partial def ofLean : Lean.Json → J
  | .null => .null
  | .bool b => .bool b
  | .num n =>
    let d : Nat := 10 ^ n.exponent
    if n.mantissa % d == 0 then .num (n.mantissa / d) else .frac
  | .str s => .str s
  | .arr a => .arr (a.toList.map ofLean)
  | .obj kvs => .obj (kvs.toList.map fun (k, v) => (k, ofLean v))

def canonCfg (c : ApiConfig) : String :=
  let p := match c.channelPool with
    | none => "P-"
    | some p => s!"P({p.maxSize},{p.idleTimeout},{p.wm},{p.minSize},{if p.fallback then 1 else 0},{p.udMs},{p.uCalls},{p.strategy})"
  let ms := c.methods.map fun m =>
    let a := match m.affinity with
      | none => "A-"
      | some a => s!"A({a.command},{stringToHex a.key})"
    s!" M({".".intercalate (m.names.map stringToHex)};{a})"
  p ++ String.join ms

def dMin : Nat := GcpVerif.Generated.defaultMinSize.toNat
def dMax : Nat := GcpVerif.Generated.defaultMaxSize.toNat
def dWm : Nat := GcpVerif.Generated.defaultMaxStreams.toNat

def allNames (c : ApiConfig) : List String :=
  ((c.methods.map (·.names)).flatten.eraseDups).mergeSort (· ≤ ·)

def tableStr (c : ApiConfig) : String :=
  ",".intercalate ((allNames c).filterMap fun n =>
    (methodTable c.methods n).map fun a => s!"{stringToHex n}:{a.command}:{stringToHex a.key}")

def fail (rep : Report) (ln : Nat) (c : String) : Report :=
  { rep.msg s!"MONITOR property=C17 clause={c} line={ln}" with monitorFails := rep.monitorFails + 1 }

def handle (rep : Report) (ln : Nat) (toks : List String) (obs : String) : Report :=
  let rep := { rep with episodes := rep.episodes + 1 }
  let a := args toks.tail
  match hexToString (arg a "json") with
  | none => rep.msg s!"BAD line={ln}"
  | some text =>
    let tree : Option J := match Lean.Json.parse text with
      | .ok j => some (ofLean j)
      | .error _ => none
    match toks.head? with
    | some "parse" =>
      let r := tree.bind parse
      let mine := match r with | some c => s!"ok {canonCfg c}" | none => "err"
      let rep := rep.bump (match r with | some _ => "cfg.parse_accepted" | none => "cfg.parse_rejected")
      if mine == obs then rep else { rep.msg s!"DIVERGE line={ln} model={mine} impl={obs}" with diverged := rep.diverged + 1 }
    | some "makeopts" =>
      -- C17: the options of one GCPMultiEndpoint are not overwritten when another one is built from the
      -- same caller-owned slice
      let rep := rep.bump "cfg.dial_options_from_shared_slice"
      if obs == "aliased=0" then rep else fail rep ln "no_mutation_no_alias"
    | some "roundtrip" =>
      -- C17: the real parser gives back the message that was rendered; and the model agrees on what it is
      let rep := rep.bump "cfg.roundtrip"
      let rep := if obs == "ok" then rep else fail rep ln "parse_render"
      match hexToString (arg a "want"), tree.bind parse with
      | some want, some c => if canonCfg c == want then rep else { rep.msg s!"DIVERGE line={ln} model={canonCfg c} impl={want}" with diverged := rep.diverged + 1 }
      | _, _ => { rep.msg s!"DIVERGE line={ln} model=err impl=roundtrip" with diverged := rep.diverged + 1 }
    | some "effective" =>
      match tree.bind parse with
      | none => rep.msg s!"BAD line={ln} (effective line for a rejected config)"
      | some c =>
        let e := effective dMin dMax dWm (some c)
        let mine := s!"{canonCfg e} tbl={tableStr e} det={if detection e then 1 else 0} mutated=0 aliased=0 second=same acts=1"
        let rep := rep.bump "cfg.effective"
        let rep := if (c.channelPool.map (·.minSize)).getD 0 == 0 then rep.bump "cfg.default_min" else rep
        let rep := if !(tableStr e).isEmpty then rep.bump "cfg.nonempty_method_table" else rep
        let rep := if (allNames c).length < ((c.methods.map (·.names)).flatten).length then rep.bump "cfg.overlapping_names" else rep
        let oa := obs.splitOn " "
        let rep := if oa.contains "mutated=0" && oa.contains "aliased=0" then rep else fail rep ln "no_mutation_no_alias"
        let rep := if oa.contains "second=same" then rep else fail rep ln "first_update_wins"
        -- the effective configuration, the method table and the detection switch are the property itself:
        -- a difference is a violation with this line as its failing input, not just a broken tie
        let rep := if obs.startsWith (canonCfg e ++ " tbl=") then rep else fail rep ln "effective_config"
        let rep := if oa.contains s!"tbl={tableStr e}" then rep else fail rep ln "method_table"
        let rep := if oa.contains s!"det={if detection e then 1 else 0}" then rep else fail rep ln "detection_switch"
        -- the balancer acts on the effective values: the low watermark is at least 1, an idle READY channel takes a call
        let rep := if oa.contains "acts=1" then rep else fail rep ln "effective_config_acted_on"
        if mine == obs then rep else { rep.msg s!"DIVERGE line={ln} model={mine} impl={obs}" with diverged := rep.diverged + 1 }
    | _ => rep.msg s!"BAD line={ln}"

end GcpVerif.Driver.CfgDrv
