/- Driver for the checksum codec model (C19). -/
import GcpVerif.Model.Checksum
import GcpVerif.Generated.Consts
import GcpVerif.Driver.Common
namespace GcpVerif.Driver.CkDrv
open GcpVerif.Checksum GcpVerif.Driver

def field : Nat := GcpVerif.Generated.checksumField.toNat
def wire : Nat := GcpVerif.Generated.checksumWireType.toNat

/-- C19 monitor on what the implementation printed: the output is the payload preceded by exactly
    the 6-byte field, it still parses with one extra fixed32 field 2047, and decoding round-trips -/
def monitor (std out : Bytes) (dec : String) : List String :=
  let crc := fixed32le (crc32c std).toNat
  (if out == [0xFD, 0x7F] ++ crc ++ std then [] else ["marshal_bytes"]) ++
  (if out.length == 6 + std.length then [] else ["marshal_length"]) ++
  (match parseN (std.length + 1) std with
   | some fs => if parseN (std.length + 2) out == some ({ num := 2047, payload := .fixed32 crc } :: fs) then [] else ["parse_marshal"]
   | none => ["payload_not_wellformed"]) ++
  (if dec == "ok" then [] else ["decodes_to_original"])

def handle (rep : Report) (ln : Nat) (toks : List String) (obs : String) : Report :=
  match toks with
  | "marshal" :: rest =>
    let a := args rest
    let o := args (obs.splitOn " ")
    match ofHex (arg a "std") with
    | none => rep.msg s!"BAD line={ln}"
    | some std =>
      let rep := { rep with episodes := rep.episodes + 1 }
      let mine : String := match marshal field wire (some std) with
        | some b => s!"out={toHex b}"
        | none => "err"
      let rep := if arg a "later" != "" then rep.bump "ck.result_inspected_again_later" else rep
      let rep := if std.isEmpty then rep.bump "ck.empty_message" else rep
      let rep := if std.length > 1000 then rep.bump "ck.large_message" else rep.bump "ck.small_message"
      let rep := match ofHex (arg o "out") with
        | some out =>
          (monitor std out (arg o "dec")).foldl (fun rep c =>
            { rep.msg s!"MONITOR property=C19 clause={c} line={ln}" with monitorFails := rep.monitorFails + 1 }) rep
        | none => { rep.msg s!"MONITOR property=C19 clause=marshal_bytes line={ln}" with monitorFails := rep.monitorFails + 1 }
      if obs.startsWith mine then rep
      else { rep.msg s!"DIVERGE line={ln} model={mine.take 80} impl={obs.take 80}" with diverged := rep.diverged + 1 }
  | "marshalerr" :: _ =>
    let rep := rep.bump "ck.inner_error"
    -- the model passes the error through
    if marshal field wire none == none && obs.startsWith "err" then rep
    else { rep.msg s!"MONITOR property=C19 clause=marshal_error_passthrough line={ln}" with monitorFails := rep.monitorFails + 1 }
  | "crc" :: rest =>
    let a := args rest
    match ofHex (arg a "hex") with
    | none => rep.msg s!"BAD line={ln}"
    | some b =>
      let rep := rep.bump "ck.crc_vectors"
      let mine := s!"crc={(crc32c b).toNat}"
      if mine == obs then rep
      else { rep.msg s!"DIVERGE line={ln} model={mine} impl={obs}" with diverged := rep.diverged + 1 }
  | _ => rep.msg s!"BAD line={ln}"

end GcpVerif.Driver.CkDrv
