/-
Shared helpers of the line-protocol driver (core Lean only).
A line is `<model> <op> k=v ... => <observation>`.
-/
namespace GcpVerif.Driver

def splitArrow (line : String) : String × String :=
  match line.splitOn " => " with
  | [a] => (a, "")
  | a :: rest => (a, " => ".intercalate rest)
  | [] => ("", "")

def kv (tok : String) : String × String :=
  match tok.splitOn "=" with
  | [k] => (k, "")
  | k :: rest => (k, "=".intercalate rest)
  | [] => ("", "")

def args (toks : List String) : List (String × String) := toks.map kv

def arg (as : List (String × String)) (k : String) : String :=
  match as.find? (fun p => p.1 == k) with
  | some p => p.2
  | none => ""

def arg? (as : List (String × String)) (k : String) : Option String :=
  (as.find? (fun p => p.1 == k)).map (·.2)

/-- "" = empty list; otherwise every item is prefixed with '.' -/
def decList (s : String) : List String :=
  if s == "" then [] else (s.splitOn ".").tail

def encList (l : List String) : String := String.join (l.map fun x => "." ++ x)

def commaList (s : String) : List String := if s == "" then [] else s.splitOn ","

/-- accumulated result of one driver run -/
structure Report where
  lines : Nat := 0
  episodes : Nat := 0
  diverged : Nat := 0
  monitorFails : Nat := 0
  msgs : Array String := #[]
  counters : List (String × Nat) := []
  deriving Inhabited

def Report.bump (r : Report) (k : String) (n : Nat := 1) : Report :=
  let rec go : List (String × Nat) → List (String × Nat)
    | [] => [(k, n)]
    | (k', v) :: rest => if k' == k then (k', v + n) :: rest else (k', v) :: go rest
  { r with counters := go r.counters }

def Report.msg (r : Report) (m : String) : Report :=
  if r.msgs.size < 200 then { r with msgs := r.msgs.push m } else r

end GcpVerif.Driver
