/- Driver for the stream-interceptor model (C12). -/
import GcpVerif.Model.Stream
import GcpVerif.Driver.Common
namespace GcpVerif.Driver.StDrv
open GcpVerif.Stream GcpVerif.Driver

def tids : List Tid := [0, 1, 2, 3]

def retName : Ret → String
  | .delegated (.send _) => "sent"
  | .delegated .recv => "recvd"
  | .delegated .header => "header"
  | .delegated .closeSend => "closed"
  | .createErr => "createerr"
  | .ctxErr => "ctxerr"
  | .blocked => "blocked"
  | .trailerNil => "trailernil"
  | .ctxOwn => "ctxown"
  | .ctxOfStream => "ctxstream"
  | .trailerOfStream => "trailerstream"

/-- run the internal steps (broadcasts, re-checks, delegations, the context watcher) to quiescence -/
def settle (s : St) (rets : List (Tid × Ret)) : Nat → St × List (Tid × Ret)
  | 0 => (s, rets)
  | fuel + 1 =>
    let candidates : List Step :=
      (tids.filterMap fun t => match s.pcs t with
        | .owesBroadcast _ _ => some (.broadcast t)
        | .delegating _ => some (.delegate t)
        | .runnable _ => some (.recheck t)
        | _ => none) ++ (if s.watcher == .armed && s.ctxDone then [.watcherFire] else [])
    match candidates with
    | [] => (s, rets)
    | st :: _ =>
      let (s', r) := step s st
      let t : Tid := match st with | .broadcast t => t | .delegate t => t | .recheck t => t | _ => 0
      let rets := match r with
        | some .blocked => rets
        | some x => rets ++ [(t, x)]
        | none => rets
      settle s' rets fuel

def summary (s : St) (rets : List (Tid × Ret)) : String :=
  let rs := (rets.map fun (t, r) => s!"{t}:{retName r}").mergeSort (· ≤ ·)
  let bl := (tids.filter fun t => match s.pcs t with | .waiting _ => true | _ => false).map toString
  let att := s.attempts.map fun | some m => toString m | none => "-"
  let sends := s.log.filterMap fun | (_, .send m) => some (toString m) | _ => none
  let cnt (f : Call → Bool) := (s.log.filter fun p => f p.2).length
  s!"rets={",".intercalate rs} blocked={",".intercalate bl} created={s.created} attempts={",".intercalate att} sends={",".intercalate sends} recv={cnt (· == .recv)} header={cnt (· == .header)} closesend={cnt (· == .closeSend)}"

def fail (rep : Report) (ln : Nat) (c : String) : Report :=
  { rep.msg s!"MONITOR property=C12 clause={c} line={ln}" with monitorFails := rep.monitorFails + 1 }

def parseCall (c : String) : Option Call :=
  if c.startsWith "send:" then (c.drop 5).toString.toNat?.map .send
  else match c with
    | "recv" => some .recv | "header" => some .header | "closesend" => some .closeSend | _ => none

/-- the monitor's own record of the history (independent of the model state) -/
structure Hist where
  cancellable : Bool := false
  canceled : Bool := false
  nAttempts : Nat := 0
  deriving Inhabited

/-- monitors on what the implementation printed -/
def monitor (rep : Report) (ln : Nat) (h : Hist) (op : String) (oa : List (String × String)) (obs : String) : Report :=
  let a := args (obs.splitOn " ")
  let atts := if arg a "attempts" == "" then [] else (arg a "attempts").splitOn ","
  -- C12: the first message is visible to the picker: a creation attempt made by this SendMsg carries its message
  let rep := if op == "call" && (arg oa "c").startsWith "send:" && atts.length > h.nAttempts &&
                atts.getLast? != some ((arg oa "c").drop 5).toString then fail rep ln "first_message_visible" else rep
  -- C12: a receiver does not stay blocked once creation failed or the context ended
  let failedCreation := atts.length > (arg a "created").toNat?.getD 0
  let rep := if arg a "blocked" != "" && (failedCreation || (h.cancellable && h.canceled) || (op == "cancel" && h.cancellable))
             then fail rep ln "recv_progress" else rep
  let rep := if obs.contains "PANIC" then { fail rep ln "stream_methods_total" with monitorFails := rep.monitorFails + 1 } else rep
  let rep := match (arg a "created").toNat? with
    | some n => if n ≤ 1 then rep else fail rep ln "create_at_most_once"
    | none => rep
  let rep := if (arg a "attempts").splitOn "," |>.contains "ctxlost" then fail rep ln "unary_and_stream_context_preserved" else rep
  -- nothing reaches the underlying stream before it exists; a blocked receiver means nothing to wait for yet
  let created := (arg a "created") == "1"
  let rep := if !created && (arg a "sends" != "" || arg a "recv" != "0" || arg a "header" != "0" || arg a "closesend" != "0")
             then fail rep ln "delegation_after_creation" else rep
  let rep := if arg a "blocked" != "" && created then fail rep ln "recv_progress" else rep
  rep

structure Sess where
  model : Option St := none
  hist : Hist := {}

instance : Inhabited Sess := ⟨{}⟩

def handle (sess0 : Sess) (rep : Report) (ln : Nat) (toks : List String) (obs : String) : Sess × Report :=
  let a := args toks.tail
  let lift (r : Option St × Report) (h : Hist) : Sess × Report := ({ model := r.1, hist := h }, r.2)
  let sess := sess0.model
  match toks.head? with
  | some "new" =>
    lift ({ rep with episodes := rep.episodes + 1 } |> fun rep => (some (init (arg a "ctx" == "cancel")), if obs == "ok" then rep else rep.msg s!"BAD line={ln}"))
      { cancellable := arg a "ctx" == "cancel" }
  | some "unary" =>
    (sess0, if obs == "unary=ok" then rep.bump "st.unary" else fail rep ln "unary_transparent")
  | some op =>
    let rep := monitor rep ln sess0.hist op a obs
    let oa := args (obs.splitOn " ")
    let atts := if arg oa "attempts" == "" then 0 else ((arg oa "attempts").splitOn ",").length
    let hist : Hist := { sess0.hist with canceled := sess0.hist.canceled || op == "cancel", nAttempts := atts }
    lift (match sess with
    | none => (none, rep.bump "st.skipped_after_divergence")
    | some s =>
      let st? : Option (Step × Tid) := match op with
        | "call" => do
          let t ← (arg a "t").toNat?
          let c ← parseCall (arg a "c")
          pure (.call t c (arg a "ok" == "1"), t)
        | "cancel" => some (.cancel, 0)
        | "trailer" => some (.trailer, 9)
        | "context" => some (.context, 9)
        | _ => none
      match st? with
      | none => (sess, rep.msg s!"BAD line={ln}")
      | some (st, t) =>
        let (s1, r) := step s st
        let rets0 := match r with
          | some .blocked => []
          | some x => [(t, x)]
          | none => []
        let rep := if r == some .blocked then rep.bump "st.recv_blocks_before_first_send" else rep
        let (s2, rets) := settle s1 rets0 64
        let rep := if s.initErr && !s.stream && s2.stream then rep.bump "st.created_after_failed_attempt" else rep
        let rep := if rets.any (fun p => p.2 == .ctxErr) then rep.bump "st.returned_on_context_end" else rep
        let rep := if rets.any (fun p => p.2 == .createErr) then rep.bump "st.returned_creation_error" else rep
        let rep := if (rets.filter fun p => p.1 != t).length > 0 then rep.bump "st.waiter_woken" else rep
        let mine := summary s2 rets
        if mine == obs then (some s2, rep)
        else (none, { rep.msg s!"DIVERGE line={ln} model={mine} impl={obs}" with diverged := rep.diverged + 1 })) hist
  | none => (sess0, rep.msg s!"BAD line={ln}")

end GcpVerif.Driver.StDrv
