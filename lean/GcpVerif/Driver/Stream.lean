/- Driver for the stream-interceptor model (C12). -/
import GcpVerif.Model.Stream
import GcpVerif.Driver.Common
namespace GcpVerif.Driver.StDrv
open GcpVerif.Stream GcpVerif.Driver

def tids : List Tid := [0, 1, 2, 3]

def retName : Ret → String
  | .delegated (.send _) => "sent"
  | .delegated .recv => "recvd"
  | .delegated .header => "header"
  | .delegated .closeSend => "closed"
  | .createErr => "createerr"
  | .ctxErr => "ctxerr"
  | .blocked => "blocked"
  | .trailerNil => "trailernil"
  | .ctxOwn => "ctxown"
  | .ctxOfStream => "ctxstream"
  | .trailerOfStream => "trailerstream"

/-- run the internal steps (broadcasts, re-checks, delegations, the context watcher) to quiescence -/
def settle (s : St) (rets : List (Tid × Ret)) : Nat → St × List (Tid × Ret)
  | 0 => (s, rets)
  | fuel + 1 =>
    let candidates : List Step :=
      (tids.filterMap fun t => match s.pcs t with
        | .owesBroadcast _ _ => some (.broadcast t)
        | .delegating _ => some (.delegate t)
        | .runnable _ => some (.recheck t)
        | _ => none) ++ (if s.watcher == .armed && s.ctxDone then [.watcherFire] else [])
    match candidates with
    | [] => (s, rets)
    | st :: _ =>
      let (s', r) := step s st
      let t : Tid := match st with | .broadcast t => t | .delegate t => t | .recheck t => t | _ => 0
      let rets := match r with
        | some .blocked => rets
        | some x => rets ++ [(t, x)]
        | none => rets
      settle s' rets fuel

def summary (s : St) (rets : List (Tid × Ret)) : String :=
  let rs := (rets.map fun (t, r) => s!"{t}:{retName r}").mergeSort (· ≤ ·)
  let bl := (tids.filter fun t => match s.pcs t with | .waiting _ => true | _ => false).map toString
  let att := s.attempts.map fun | some m => toString m | none => "-"
  let sends := s.log.filterMap fun | (_, .send m) => some (toString m) | _ => none
  let cnt (f : Call → Bool) := (s.log.filter fun p => f p.2).length
  s!"rets={",".intercalate rs} blocked={",".intercalate bl} created={s.created} attempts={",".intercalate att} sends={",".intercalate sends} recv={cnt (· == .recv)} header={cnt (· == .header)} closesend={cnt (· == .closeSend)}"

/-- `summary` with the sends sorted (two senders: their order on the underlying stream is not determined) -/
def summarySorted (s : St) (rets : List (Tid × Ret)) : String :=
  let rs := (rets.map fun (t, r) => s!"{t}:{retName r}").mergeSort (· ≤ ·)
  let bl := (tids.filter fun t => match s.pcs t with | .waiting _ => true | _ => false).map toString
  let att := s.attempts.map fun | some m => toString m | none => "-"
  let sends := ((s.log.filterMap fun | (_, .send m) => some m | _ => none).mergeSort (· ≤ ·)).map toString
  let cnt (f : Call → Bool) := (s.log.filter fun p => f p.2).length
  s!"rets={",".intercalate rs} blocked={",".intercalate bl} created={s.created} attempts={",".intercalate att} sends={",".intercalate sends} recv={cnt (· == .recv)} header={cnt (· == .header)} closesend={cnt (· == .closeSend)}"

def fail (rep : Report) (ln : Nat) (c : String) : Report :=
  { rep.msg s!"MONITOR property=C12 clause={c} line={ln}" with monitorFails := rep.monitorFails + 1 }

def parseCall (c : String) : Option Call :=
  if c.startsWith "send:" then (c.drop 5).toString.toNat?.map .send
  else match c with
    | "recv" => some .recv | "header" => some .header | "closesend" => some .closeSend | _ => none

/-- the monitor's own record of the history (independent of the model state) -/
structure Hist where
  cancellable : Bool := false
  canceled : Bool := false
  nAttempts : Nat := 0
  created : Bool := false       -- the underlying stream existed before this operation
  raceArmed : Bool := false     -- ctx=race: the first waiter that finds the context alive gets it cancelled under its feet
  deriving Inhabited

/-- monitors on what the implementation printed -/
def monitor (rep : Report) (ln : Nat) (h : Hist) (op : String) (oa : List (String × String)) (obs : String) : Report :=
  let a := args (obs.splitOn " ")
  let atts := if arg a "attempts" == "" then [] else (arg a "attempts").splitOn ","
  -- C12: the first message is visible to the picker: a creation attempt made by this SendMsg carries its message
  let rep := if op == "call" && (arg oa "c").startsWith "send:" && atts.length > h.nAttempts &&
                atts.getLast? != some ((arg oa "c").drop 5).toString then fail rep ln "first_message_visible" else rep
  -- C12: a receiver does not stay blocked once creation failed or the context ended
  let failedCreation := atts.length > (arg a "created").toNat?.getD 0
  let rep := if arg a "blocked" != "" && (failedCreation || (h.cancellable && h.canceled) || (op == "cancel" && h.cancellable))
             then fail rep ln "recv_progress" else rep
  -- the receivers that were waiting when the stream was created reach it without waiting for the
  -- underlying send to finish
  let rep := if obs.contains "latewake=1" then fail rep ln "recv_progress" else rep
  let rep := if obs.contains "PANIC" then { fail rep ln "stream_methods_total" with monitorFails := rep.monitorFails + 1 } else rep
  let rep := match (arg a "created").toNat? with
    | some n => if n ≤ 1 then rep else fail rep ln "create_at_most_once"
    | none => rep
  let rep := if (arg a "attempts").splitOn "," |>.contains "ctxlost" then fail rep ln "unary_and_stream_context_preserved" else rep
  -- nothing reaches the underlying stream before it exists; a blocked receiver means nothing to wait for yet
  let created := (arg a "created") == "1"
  let rep := if !created && (arg a "sends" != "" || arg a "recv" != "0" || arg a "header" != "0" || arg a "closesend" != "0")
             then fail rep ln "delegation_after_creation" else rep
  let rep := if arg a "blocked" != "" && created then fail rep ln "recv_progress" else rep
  -- once created, every receive / header / send reaches the underlying stream — also after the call's
  -- context has ended (the wrapper does not answer in its place)
  let rets := if arg a "rets" == "" then [] else (arg a "rets").splitOn ","
  let rep := if h.created && op == "call" &&
                rets.any (fun r => r == s!"{arg oa "t"}:ctxerr" || r == s!"{arg oa "t"}:createerr")
             then fail rep ln "delegation_after_creation" else rep
  rep

structure Sess where
  model : Option St := none
  hist : Hist := {}

instance : Inhabited Sess := ⟨{}⟩

def handle (sess0 : Sess) (rep : Report) (ln : Nat) (toks : List String) (obs : String) : Sess × Report :=
  let a := args toks.tail
  let lift (r : Option St × Report) (h : Hist) : Sess × Report := ({ model := r.1, hist := h }, r.2)
  let sess := sess0.model
  match toks.head? with
  | some "new" =>
    lift ({ rep with episodes := rep.episodes + 1 } |> fun rep => (some (init (arg a "ctx" == "cancel" || arg a "ctx" == "race")), if obs == "ok" then rep else rep.msg s!"BAD line={ln}"))
      { cancellable := arg a "ctx" == "cancel" || arg a "ctx" == "race", raceArmed := arg a "ctx" == "race" }
  | some "unary" =>
    (sess0, if obs == "unary=ok" then rep.bump "st.unary" else fail rep ln "unary_transparent")
  | some op =>
    let oa := args (obs.splitOn " ")
    let atts := if arg oa "attempts" == "" then 0 else ((arg oa "attempts").splitOn ",").length
    -- ctx=race: does this call cancel the context from inside its own context check?  Judged from the
    -- history the harness printed so far (nothing created, no failed attempt, not cancelled), not from the model
    let isWaitCall := op == "call" && (arg a "c" == "recv" || arg a "c" == "header")
    let raceNow := sess0.hist.raceArmed && isWaitCall && !sess0.hist.canceled && sess0.hist.nAttempts == 0
    let histPre : Hist := { sess0.hist with canceled := sess0.hist.canceled || raceNow }
    let rep := if raceNow then rep.bump "st.cancel_between_check_and_wait" else rep
    let rep := monitor rep ln histPre op a obs
    let hist : Hist := { histPre with canceled := histPre.canceled || op == "cancel", nAttempts := atts,
                                      created := histPre.created || arg oa "created" == "1",
                                      raceArmed := histPre.raceArmed && !raceNow }
    if op == "call2" then
      -- two callers arrive while the stream is being created: the model (creation is one atomic step
      -- under the stream's mutex) runs them one after the other
      lift (match sess with
      | none => (none, rep.bump "st.skipped_after_divergence")
      | some s =>
        match parseCall (arg a "a"), parseCall (arg a "b") with
        | some ca, some cb =>
          let rep := rep.bump "st.second_caller_during_creation"
          let runCall (s : St) (t : Tid) (c : Call) (rets : List (Tid × Ret)) : St × List (Tid × Ret) :=
            let (s1, r) := step s (.call t c true)
            let rets := match r with | some .blocked => rets | some x => rets ++ [(t, x)] | none => rets
            settle s1 rets 64
          -- either order of the two callers; the model continues from the one the implementation printed
          let (s1, rets1) := runCall s 0 ca []
          let (s2, rets2) := runCall s1 3 cb rets1
          let (t1, retsB1) := runCall s 3 cb []
          let (t2, retsB2) := runCall t1 0 ca retsB1
          let mine := summary s2 rets2
          -- … and the caller that created the stream delegates its own call only after it has released the
          -- stream's mutex: the other caller's call may reach the underlying stream first (same final state
          -- but for the order of the two entries in the stream's log)
          let swapCallers (s' : St) : St :=
            let old := s'.log.take s.log.length
            let new := s'.log.drop s.log.length      -- what this operation appended
            match new.find? (fun p => p.1 == 0), new.find? (fun p => p.1 == 3) with
            | some x, some y => { s' with log := old ++ new.map fun p => if p.1 == 0 then y else if p.1 == 3 then x else p }
            | _, _ => s'
          if mine == obs then (some s2, rep)
          else if summary t2 retsB2 == obs then (some t2, rep.bump "st.second_caller_went_first")
          else if summary (swapCallers s2) rets2 == obs then (some (swapCallers s2), rep.bump "st.creator_delegated_after_the_other_caller")
          else if summary (swapCallers t2) retsB2 == obs then (some (swapCallers t2), rep.bump "st.creator_delegated_after_the_other_caller")
          else (none, { rep.msg s!"DIVERGE line={ln} model={mine} impl={obs}" with diverged := rep.diverged + 1 })
        | _, _ => (sess, rep.msg s!"BAD line={ln}")) hist
    else
    lift (match sess with
    | none => (none, rep.bump "st.skipped_after_divergence")
    | some s =>
      let st? : Option (Step × Tid) := match op with
        | "call" => do
          let t ← (arg a "t").toNat?
          let c ← parseCall (arg a "c")
          pure (.call t c (arg a "ok" == "1"), t)
        | "cancel" => some (.cancel, 0)
        | "trailer" => some (.trailer, 9)
        | "context" => some (.context, 9)
        | _ => none
      match st? with
      | none => (sess, rep.msg s!"BAD line={ln}")
      | some (st, t) =>
        let (s1, r) := step s st
        -- the race context: the environment's `cancel` move comes right after the waiter parked
        let s1 := if raceNow then (step s1 .cancel).1 else s1
        let rets0 := match r with
          | some .blocked => []
          | some x => [(t, x)]
          | none => []
        let rep := if r == some .blocked then rep.bump "st.recv_blocks_before_first_send" else rep
        let (s2, rets) := settle s1 rets0 64
        let rep := if s.initErr && !s.stream && s2.stream then rep.bump "st.created_after_failed_attempt" else rep
        let rep := if rets.any (fun p => p.2 == .ctxErr) then rep.bump "st.returned_on_context_end" else rep
        let rep := if rets.any (fun p => p.2 == .createErr) then rep.bump "st.returned_creation_error" else rep
        let rep := if (rets.filter fun p => p.1 != t).length > 0 then rep.bump "st.waiter_woken" else rep
        let mine := summary s2 rets
        if mine == obs then (some s2, rep)
        else (none, { rep.msg s!"DIVERGE line={ln} model={mine} impl={obs}" with diverged := rep.diverged + 1 })) hist
  | none => (sess0, rep.msg s!"BAD line={ln}")

end GcpVerif.Driver.StDrv
