/- Driver for the prober helpers (C18). -/
import GcpVerif.Model.Prober
import GcpVerif.Generated.Consts
import GcpVerif.Driver.Common
import GcpVerif.Driver.KeyPath
namespace GcpVerif.Driver.PbDrv
open GcpVerif.Prober GcpVerif.Driver
open GcpVerif.Driver.KpDrv (hexToString stringToHex)
open GcpVerif.KeyPath (splitChars)

def parseHexList (s : String) : Option (List String) :=
  if s == "-" then some []
  else
    let body := ((s.drop 1).toString.dropEnd 1).toString
    if body == "" then some [] else (body.splitOn ",").mapM hexToString

def mdOf (key : String) (s : String) : Option MD :=
  if s == "-" then some [] else (parseHexList s).map fun l => [(key, l)]

structure Sess where
  lastBackoff : Option (Int × Int × Int × Int) := none   -- base, max, n, result
  deriving Inhabited

def fail (rep : Report) (ln : Nat) (c : String) : Report :=
  { rep.msg s!"MONITOR property=C18 clause={c} line={ln}" with monitorFails := rep.monitorFails + 1 }

def diverge (rep : Report) (ln : Nat) (mine obs : String) : Report :=
  { rep.msg s!"DIVERGE line={ln} model={mine} impl={obs}" with diverged := rep.diverged + 1 }

def segs (s : String) : List String := (splitChars '/' s.toList).map String.ofList

def handle (sess : Sess) (rep : Report) (ln : Nat) (toks : List String) (obs : String) : Sess × Report :=
  let rep := { rep with episodes := rep.episodes + 1 }
  let a := args toks.tail
  match toks.head? with
  | some "backoff" =>
    match (arg a "base").toInt?, (arg a "max").toInt?, (arg a "n").toInt?, obs.toInt? with
    | some base, some mx, some n, some got =>
      let rep := rep.bump "pb.backoff"
      let mine := backoffF53 base.toNat mx.toNat n
      -- a float beyond the int64 range converts in an implementation-specific way in Go: not compared
      let rep := if base ≥ 0 ∧ mx ≥ 0 ∧ mine < 2^63 ∧ (mine : Int) != got then diverge rep ln s!"{mine}" obs else rep
      -- C18 monitor: within [base, max] for 0 ≤ base ≤ max ≤ 2^53, non-decreasing in the retry count
      let inScope := base ≤ mx
      let rep := if inScope && got < base then fail rep ln "backoff_ge_base" else rep
      let rep := if inScope && got > mx then fail rep ln "backoff_le_max" else rep
      let rep := match sess.lastBackoff with
        | some (b, m, n0, r0) => if inScope && b == base && m == mx && n == n0 + 1 && got < r0 then fail rep ln "backoff_mono_retries" else rep
        | none => rep
      let rep := if got == mx && base < mx then rep.bump "pb.backoff_saturated" else rep
      ({ sess with lastBackoff := some (base, mx, n, got) }, rep)
    | _, _, _, _ => (sess, if obs == "PANIC" then fail rep ln "backoff_total" else rep.msg s!"BAD line={ln}")
  | some "t4t7" =>
    let key := GcpVerif.Generated.serverTimingKey
    let pfx := GcpVerif.Generated.gfeT4T7prefix
    match mdOf key (arg a "hdr"), mdOf key (arg a "trl") with
    | some h, some t =>
      let r := parseT4T7 key pfx h t
      let mine := match r with | some ns => s!"ok {ns}" | none => "err"
      let rep := rep.bump (match r with | some _ => "pb.t4t7_ok" | none => "pb.t4t7_err")
      let rep := if (mdGet h key).length > 0 && (mdGet t key).length > 0 then rep.bump "pb.t4t7_header_and_trailer" else rep
      let rep := if obs == "PANIC" then fail rep ln "t4t7_total" else rep
      -- the value is the first entry's duration, exactly (no int64 wrap-around)
      let rep := match parseT4T7Exact key pfx h t with
        | some ex => if obs == s!"ok {ex}" then rep
                     else { rep.msg s!"MONITOR property=C18 clause=t4t7_value_exact line={ln} ms={ex / 1000000}" with monitorFails := rep.monitorFails + 1 }
        | none => if obs == "err" then rep else fail rep ln "t4t7_error_cases"
      (sess, if mine == obs then rep else diverge rep ln mine obs)
    | _, _ => (sess, rep.msg s!"BAD line={ln}")
  | some "ptype" =>
    match hexToString (arg a "t") with
    | some t =>
      let mine := if GcpVerif.Generated.probeTypes.contains t then "ok" else "err"
      (sess, if mine == obs then rep.bump "pb.ptype" else diverge rep ln mine obs)
    | none => (sess, rep.msg s!"BAD line={ln}")
  | some "uris" =>
    match hexToString (arg a "project"), hexToString (arg a "instance"), hexToString (arg a "database"), hexToString (arg a "config") with
    | some p, some i, some d, some c =>
      let f : Flags := { project := p, opsProject := "", instance_name := i, database_name := d, instanceConfig := c,
                         probeType := "", numRows := 1, payloadSize := 1, qpsBits := 0 }
      let mine := s!"db={stringToHex (databaseURI f)} inst={stringToHex (instanceURI f)} cfg={stringToHex (instanceConfigURI f)} proj={stringToHex (projectURI f)}"
      -- C18 monitor on the implementation's own resource names: names that flag validation accepts
      -- (the regenerated character classes) appear as exactly their own path segments
      let accepted (flag val : String) : Bool :=
        match (GcpVerif.Generated.flagRegexes.find? fun q => q.1 == flag).bind fun q => parseClass q.2 with
        | some cls => matchAll cls val
        | none => false
      let oa := args (obs.splitOn " ")
      let got (k : String) : List String := match hexToString (arg oa k) with | some u => segs u | none => ["?"]
      let rep := if accepted "project" p && accepted "instance_name" i && accepted "database_name" d && accepted "instanceConfig" c then
          let rep := rep.bump "pb.uris_of_acceptable_names"
          if got "db" == ["projects", p, "instances", i, "databases", d] && got "inst" == ["projects", p, "instances", i] &&
             got "cfg" == ["projects", p, "instanceConfigs", c] && got "proj" == ["projects", p] then rep
          else fail rep ln "accepted_flags_segments"
        else rep
      (sess, if mine == obs then rep.bump "pb.uris" else diverge rep ln mine obs)
    | _, _, _, _ => (sess, rep.msg s!"BAD line={ln}")
  | some "interval" =>
    match (arg a "qps").toNat?, obs.toInt? with
    | some bits, some got =>
      match probeInterval bits with
      | some v => (sess, if (v : Int) == got then rep.bump "pb.interval" else diverge rep ln s!"{v}" obs)
      | none => (sess, rep.msg s!"BAD line={ln}")
    | _, _ => (sess, rep.msg s!"BAD line={ln}")
  | some "payload" =>
    let o := args (obs.splitOn " ")
    let rep := rep.bump (if arg a "later" == "1" then "pb.payload_inspected_again_later" else "pb.payload")
    (sess, if arg o "hash" == "ok" && arg o "len" == arg a "n" then rep else fail rep ln "payload_hash")
  | some "flags" =>
    let hs (k : String) := hexToString (arg a k)
    match hs "project", hs "ops", hs "instance", hs "database", hs "config", hs "ptype",
          (arg a "rows").toInt?, (arg a "psize").toInt?, (arg a "qps").toNat? with
    | some p, some o, some i, some d, some c, some pt, some rows, some ps, some bits =>
      let f : Flags := { project := p, opsProject := o, instance_name := i, database_name := d, instanceConfig := c,
                         probeType := pt, numRows := rows, payloadSize := ps, qpsBits := bits }
      let n := validateFlags GcpVerif.Generated.flagRegexes GcpVerif.Generated.probeTypes f
      let mine := if n == 0 then s!"errs=0 interval={(probeInterval bits).getD 0}" else s!"errs={n}"
      let rep := rep.bump (if n == 0 then "pb.flags_accepted" else "pb.flags_rejected")
      let rep := if !qpsOk bits then rep.bump "pb.flags_bad_qps" else rep
      -- C18 monitor on what the implementation accepted
      let oa := args (obs.splitOn " ")
      let rep := if arg oa "errs" == "0" then
          let rep := if segs (databaseURI f) == ["projects", p, "instances", i, "databases", d] then rep else fail rep ln "accepted_flags_segments"
          let rep := if segs (instanceConfigURI f) == ["projects", p, "instanceConfigs", c] then rep else fail rep ln "accepted_flags_segments"
          let rep := if GcpVerif.Generated.probeTypes.contains pt then rep else fail rep ln "accepted_probe_type_parses"
          match (arg oa "interval").toInt? with
          | some iv => if iv > 0 then rep else fail rep ln "accepted_interval_positive"
          | none => fail rep ln "accepted_interval_positive"
        else rep
      (sess, if mine == obs then rep else diverge rep ln mine obs)
    | _, _, _, _, _, _, _, _, _ => (sess, rep.msg s!"BAD line={ln}")
  | _ => (sess, rep.msg s!"BAD line={ln}")

end GcpVerif.Driver.PbDrv
