import GcpVerif.Model.ME
import GcpVerif.Spec.ME
import GcpVerif.Driver.Common
import GcpVerif.Driver.ME
import GcpVerif.Proofs.MEBasic
import GcpVerif.Proofs.MEInv
import GcpVerif.Proofs.MEStep
import GcpVerif.Proofs.ME
