import GcpVerif.Model.ME
import GcpVerif.Spec.ME
import GcpVerif.Driver.Common
import GcpVerif.Driver.ME
