/-
Line-protocol driver (core Lean only, built as a native executable).
Reads a trace written by a Go harness (`<model> <op> k=v … => <observation>`), replays the
operations on the Lean models, reports where model and implementation differ, and evaluates the
property monitors on the implementation's observations.
-/
import GcpVerif.Driver.Common
import GcpVerif.Driver.ME
import GcpVerif.Driver.Pool
import GcpVerif.Driver.Checksum
import GcpVerif.Driver.KeyPath
import GcpVerif.Driver.Prober
import GcpVerif.Driver.Config
import GcpVerif.Driver.Stream
import GcpVerif.Driver.GME
open GcpVerif.Driver

structure DrvState where
  rep : Report := {}
  me : MEDrv.Sess := {}
  pool : PoolDrv.Sess := {}
  pb : PbDrv.Sess := {}
  st : StDrv.Sess := {}
  gme : GmeDrv.Sess := {}

instance : Inhabited DrvState := ⟨{}⟩

def handleLine (st : DrvState) (ln : Nat) (line : String) : DrvState :=
  let (opPart, obs) := splitArrow line
  match opPart.splitOn " " with
  | "me" :: toks =>
    let (sess, rep) := MEDrv.handle st.me { st.rep with lines := st.rep.lines + 1 } ln toks obs
    { st with me := sess, rep := rep }
  | "pool" :: toks =>
    let (sess, rep) := PoolDrv.handle st.pool { st.rep with lines := st.rep.lines + 1 } ln toks obs
    { st with pool := sess, rep := rep }
  | "pb" :: toks =>
    let (sess, rep) := PbDrv.handle st.pb { st.rep with lines := st.rep.lines + 1 } ln toks obs
    { st with pb := sess, rep := rep }
  | "st" :: toks =>
    let (sess, rep) := StDrv.handle st.st { st.rep with lines := st.rep.lines + 1 } ln toks obs
    { st with st := sess, rep := rep }
  | "gme" :: toks =>
    let (sess, rep) := GmeDrv.handle st.gme { st.rep with lines := st.rep.lines + 1 } ln toks obs
    { st with gme := sess, rep := rep }
  | "cfg" :: toks =>
    { st with rep := CfgDrv.handle { st.rep with lines := st.rep.lines + 1 } ln toks obs }
  | "kp" :: toks =>
    { st with rep := KpDrv.handle { st.rep with lines := st.rep.lines + 1 } ln toks obs }
  | "ck" :: toks =>
    { st with rep := CkDrv.handle { st.rep with lines := st.rep.lines + 1 } ln toks obs }
  | _ => { st with rep := st.rep.msg s!"BAD line={ln} unknown model" }

partial def loop (h : IO.FS.Stream) (st : DrvState) (ln : Nat) : IO DrvState := do
  let line ← h.getLine
  if line.isEmpty then return st
  let line := (line.dropEndWhile (fun c => c == '\n' || c == '\r')).toString
  if line.isEmpty || line.startsWith "#" then loop h st (ln + 1)
  else loop h (handleLine st ln line) (ln + 1)

def main (argv : List String) : IO UInt32 := do
  let h ← match argv with
    | [path] => do
      let hd ← IO.FS.Handle.mk path .read
      pure (IO.FS.Stream.ofHandle hd)
    | _ => IO.getStdin
  let st ← loop h {} 1
  for m in st.rep.msgs do IO.println m
  for (k, v) in st.rep.counters do IO.println s!"COUNT {k} {v}"
  IO.println s!"SUMMARY lines={st.rep.lines} episodes={st.rep.episodes} diverged={st.rep.diverged} monitor_fails={st.rep.monitorFails}"
  return (if st.rep.diverged == 0 && st.rep.monitorFails == 0 then 0 else 1)
