// Lock-discipline extraction (C10, C06): for every access to a guarded field of the library's
// shared structures, the mutexes that are certainly held (must-hold analysis over the Go AST),
// whether the access is a write or goes through sync/atomic, and from which kinds of entry points
// it can be reached. Emitted as Generated/Accesses.lean; the obligations are checked in Lean.
//
// Fails closed: a construct it does not understand leaves the lockset smaller, never larger.
package main

import (
	"fmt"
	"go/ast"
	"go/token"
	"path/filepath"
	"sort"
	"strings"
)

// field name -> owner type (field names are unique across the analysed files)
var guardedFields = map[string]string{
	"affinityMap": "gcpBalancer", "fallbackMap": "gcpBalancer", "scStates": "gcpBalancer", "scRefs": "gcpBalancer",
	"scRefList": "gcpBalancer", "refreshingScRefs": "gcpBalancer", "picker": "gcpBalancer", "state": "gcpBalancer",
	"addrs": "gcpBalancer", "rrRefId": "gcpBalancer",
	"numReady": "gcpBalancer", "numConnecting": "gcpBalancer", "numTransientFailure": "gcpBalancer",
	"subConn": "subConnRef", "lastResp": "subConnRef", "refreshing": "subConnRef", "refreshCnt": "subConnRef",
	"deCalls": "subConnRef", "streamsCnt": "subConnRef", "affinityCnt": "subConnRef", "stateSignal": "subConnRef",
	"mes": "GCPMultiEndpoint", "pools": "GCPMultiEndpoint", "defaultName": "GCPMultiEndpoint",
	"endpoints": "multiEndpoint", "current": "multiEndpoint", "future": "multiEndpoint",
	"status": "endpoint", "lastChange": "endpoint", "futureChange": "endpoint", "priority": "endpoint",
	"ClientStream": "gcpClientStream", "initStreamErr": "gcpClientStream",
}

// receiver / variable spelling -> abstract mutex
func mutexOf(recv string, file string) string {
	switch {
	case strings.HasSuffix(recv, "gb.mu") || recv == "gb.mu":
		return "gb.mu"
	case strings.HasSuffix(recv, "gb.pickMu"):
		return "gb.pickMu"
	case recv == "p.mu":
		return "picker.mu"
	case strings.HasSuffix(recv, "ef.mu") || recv == "ref.mu": // scRef.mu, ref.mu
		return "ref.mu"
	case strings.HasSuffix(recv, "gme.mu"):
		return "gme.mu"
	case recv == "me":
		return "me.mu"
	case recv == "cs":
		return "cs.mu"
	}
	return ""
}

type lockset map[string]byte // mutex -> 'W' or 'R'

func (l lockset) copy() lockset {
	c := lockset{}
	for k, v := range l {
		c[k] = v
	}
	return c
}

func meet(a, b lockset) lockset {
	c := lockset{}
	for k, v := range a {
		if w, ok := b[k]; ok {
			if v == 'W' && w == 'W' {
				c[k] = 'W'
			} else {
				c[k] = 'R'
			}
		}
	}
	return c
}

type access struct {
	field  string
	write  bool
	atomic bool
	held   lockset
	fn     string
	pos    string
}

type callSite struct {
	callee string
	held   lockset
}

type acquisition struct {
	mu   string
	held lockset
	pos  string
}

type fnInfo struct {
	acquires []acquisition
	name     string
	entry    bool   // callable from outside with no lock held
	kind     string // "serial" (balancer callback) or "conc"
	accesses []access
	calls    []callSite
	spawns   []string // closures / goroutines started here (separate entry points)
}

type lockWalker struct {
	file  string
	fns   map[string]*fnInfo
	cur   *fnInfo
	nanon int
}

var serialEntries = map[string]bool{"UpdateClientConnState": true, "UpdateSubConnState": true, "ResolverError": true, "Build": true}

func (w *lockWalker) walkFunc(name string, body *ast.BlockStmt, entry bool) {
	fi := &fnInfo{name: name, entry: entry, kind: "conc"}
	if i := strings.LastIndexByte(name, '.'); serialEntries[name[i+1:]] && strings.HasPrefix(name, "gcpBalancer") {
		fi.kind = "serial"
	}
	w.fns[name] = fi
	saved := w.cur
	w.cur = fi
	w.block(body.List, lockset{})
	w.cur = saved
}

// returns the lockset after the statements (nil if the path always returns)
func (w *lockWalker) block(stmts []ast.Stmt, held lockset) lockset {
	for _, s := range stmts {
		held = w.stmt(s, held)
		if held == nil {
			return nil
		}
	}
	return held
}

func sel(e ast.Expr) (string, string, bool) { // x.y.z -> ("x.y", "z")
	se, ok := e.(*ast.SelectorExpr)
	if !ok {
		return "", "", false
	}
	return exprString(se.X), se.Sel.Name, true
}

// receiver spelling -> struct type (call resolution is by receiver type, never by name alone)
func typeOfRecv(recv string) string {
	switch {
	case recv == "gb" || strings.HasSuffix(recv, ".gb"):
		return "gcpBalancer"
	case recv == "p" || recv == "gp":
		return "gcpPicker"
	case recv == "gme" || strings.HasSuffix(recv, ".gme"):
		return "GCPMultiEndpoint"
	case recv == "me":
		return "multiEndpoint"
	case recv == "cs":
		return "gcpClientStream"
	case recv == "mc":
		return "monitoredConn"
	case recv == "ref" || recv == "scRef" || recv == "minScRef":
		return "subConnRef"
	case recv == "cse" || strings.HasSuffix(recv, "csEvltr"):
		return "connectivityStateEvaluator"
	case recv == "multiendpoint":
		return ""
	}
	return "?"
}

func qual(typ, name string) string {
	if typ == "" {
		return name
	}
	return typ + "." + name
}

func (w *lockWalker) lockOp(call *ast.CallExpr) (string, string) {
	recv, m, ok := sel(call.Fun)
	if !ok {
		return "", ""
	}
	switch m {
	case "Lock", "Unlock", "RLock", "RUnlock":
		if mu := mutexOf(recv, w.file); mu != "" {
			return mu, m
		}
	}
	return "", ""
}

func (w *lockWalker) stmt(s ast.Stmt, held lockset) lockset {
	switch v := s.(type) {
	case *ast.ExprStmt:
		if call, ok := v.X.(*ast.CallExpr); ok {
			if mu, op := w.lockOp(call); mu != "" {
				if op == "Lock" || op == "RLock" {
					w.cur.acquires = append(w.cur.acquires, acquisition{mu: mu, held: held.copy(),
						pos: fmt.Sprintf("%s:%d", filepath.Base(w.file), fset.Position(call.Pos()).Line)})
				}
				held = held.copy()
				switch op {
				case "Lock":
					held[mu] = 'W'
				case "RLock":
					if held[mu] != 'W' {
						held[mu] = 'R'
					}
				default:
					delete(held, mu)
				}
				return held
			}
		}
		w.expr(v.X, held, false)
	case *ast.DeferStmt:
		if mu, _ := w.lockOp(v.Call); mu != "" {
			return held // released at function end: stays held for the rest of the body
		}
		w.expr(v.Call, held, false)
	case *ast.AssignStmt:
		for _, r := range v.Rhs {
			w.expr(r, held, false)
		}
		for _, l := range v.Lhs {
			w.expr(l, held, true)
		}
	case *ast.IncDecStmt:
		w.expr(v.X, held, true)
	case *ast.ReturnStmt:
		for _, r := range v.Results {
			w.expr(r, held, false)
		}
		return nil
	case *ast.IfStmt:
		if v.Init != nil {
			held = w.stmt(v.Init, held)
			if held == nil {
				return nil
			}
		}
		w.expr(v.Cond, held, false)
		a := w.block(v.Body.List, held.copy())
		b := held
		if v.Else != nil {
			switch e := v.Else.(type) {
			case *ast.BlockStmt:
				b = w.block(e.List, held.copy())
			case *ast.IfStmt:
				b = w.stmt(e, held.copy())
			}
		}
		switch {
		case a == nil && b == nil:
			return nil
		case a == nil:
			return b
		case b == nil:
			return a
		}
		return meet(a, b)
	case *ast.ForStmt:
		if v.Init != nil {
			held = w.stmt(v.Init, held)
		}
		if v.Cond != nil {
			w.expr(v.Cond, held, false)
		}
		out := w.block(v.Body.List, held.copy())
		if v.Post != nil && out != nil {
			w.stmt(v.Post, out)
		}
		if out != nil {
			// the loop condition is evaluated again with the body's final lockset
			if v.Cond != nil {
				w.expr(v.Cond, meet(held, out), false)
			}
			return meet(held, out)
		}
		return held
	case *ast.RangeStmt:
		w.expr(v.X, held, false)
		out := w.block(v.Body.List, held.copy())
		if out != nil {
			return meet(held, out)
		}
		return held
	case *ast.BlockStmt:
		return w.block(v.List, held)
	case *ast.SwitchStmt:
		if v.Init != nil {
			held = w.stmt(v.Init, held)
		}
		if v.Tag != nil {
			w.expr(v.Tag, held, false)
		}
		res := held
		for _, c := range v.Body.List {
			cc := c.(*ast.CaseClause)
			for _, e := range cc.List {
				w.expr(e, held, false)
			}
			if out := w.block(cc.Body, held.copy()); out != nil {
				res = meet(res, out)
			}
		}
		return res
	case *ast.TypeSwitchStmt:
		res := held
		for _, c := range v.Body.List {
			if out := w.block(c.(*ast.CaseClause).Body, held.copy()); out != nil {
				res = meet(res, out)
			}
		}
		return res
	case *ast.SelectStmt:
		res := held
		for _, c := range v.Body.List {
			cc := c.(*ast.CommClause)
			if cc.Comm != nil {
				w.stmt(cc.Comm, held)
			}
			if out := w.block(cc.Body, held.copy()); out != nil {
				res = meet(res, out)
			}
		}
		return res
	case *ast.GoStmt:
		w.closureOrCall(v.Call, held)
	case *ast.DeclStmt:
		if gd, ok := v.Decl.(*ast.GenDecl); ok {
			for _, sp := range gd.Specs {
				if vs, ok := sp.(*ast.ValueSpec); ok {
					for _, e := range vs.Values {
						w.expr(e, held, false)
					}
				}
			}
		}
	case *ast.SendStmt:
		w.expr(v.Value, held, false)
	}
	return held
}

func (w *lockWalker) closureOrCall(call *ast.CallExpr, held lockset) {
	if fl, ok := call.Fun.(*ast.FuncLit); ok {
		w.funcLit(fl)
		return
	}
	// go mc.monitor(ctx): the callee becomes a concurrent entry point
	if recv, m, ok := sel(call.Fun); ok {
		w.cur.spawns = append(w.cur.spawns, qual(typeOfRecv(recv), m))
	}
	for _, a := range call.Args {
		w.expr(a, held, false)
	}
}

func (w *lockWalker) funcLit(fl *ast.FuncLit) {
	w.nanon++
	name := fmt.Sprintf("%s.func%d", w.cur.name, w.nanon)
	w.cur.spawns = append(w.cur.spawns, name)
	w.walkFunc(name, fl.Body, true) // runs later, on another goroutine: nothing is held
}

func (w *lockWalker) record(recv, field string, write, atomic bool, held lockset, pos token.Pos) {
	owner, ok := guardedFields[field]
	if !ok {
		return
	}
	// the same field name on another of our types (gcpPicker.scRefs is immutable after construction)
	if t := typeOfRecv(recv); t != "?" && t != "" && t != owner {
		return
	}
	w.cur.accesses = append(w.cur.accesses, access{field: field, write: write, atomic: atomic, held: held.copy(), fn: w.cur.name,
		pos: fmt.Sprintf("%s:%d", filepath.Base(w.file), fset.Position(pos).Line)})
}

func (w *lockWalker) expr(e ast.Expr, held lockset, write bool) {
	switch v := e.(type) {
	case nil:
	case *ast.SelectorExpr:
		w.record(exprString(v.X), v.Sel.Name, write, false, held, v.Pos())
		w.expr(v.X, held, false)
	case *ast.IndexExpr:
		// m[k] = v writes the map m
		w.expr(v.X, held, write)
		w.expr(v.Index, held, false)
	case *ast.StarExpr:
		w.expr(v.X, held, write)
	case *ast.ParenExpr:
		w.expr(v.X, held, write)
	case *ast.UnaryExpr:
		w.expr(v.X, held, false)
	case *ast.BinaryExpr:
		w.expr(v.X, held, false)
		w.expr(v.Y, held, false)
	case *ast.KeyValueExpr:
		w.expr(v.Value, held, false)
	case *ast.CompositeLit:
		for _, x := range v.Elts {
			w.expr(x, held, false)
		}
	case *ast.TypeAssertExpr:
		w.expr(v.X, held, false)
	case *ast.SliceExpr:
		w.expr(v.X, held, false)
	case *ast.FuncLit:
		w.funcLit(v)
	case *ast.CallExpr:
		recv, m, isSel := sel(v.Fun)
		// sync/atomic on &x.f
		if isSel && recv == "atomic" {
			for _, a := range v.Args {
				if u, ok := a.(*ast.UnaryExpr); ok && u.Op == token.AND {
					if se, ok := u.X.(*ast.SelectorExpr); ok {
						w.record(exprString(se.X), se.Sel.Name, !strings.HasPrefix(m, "Load"), true, held, se.Pos())
						w.expr(se.X, held, false)
						continue
					}
				}
				w.expr(a, held, false)
			}
			return
		}
		// delete(x.m, k), close(x.ch) write; append(x.l, ..) only reads (the assignment writes)
		if id, ok := v.Fun.(*ast.Ident); ok && (id.Name == "delete" || id.Name == "close") && len(v.Args) > 0 {
			w.expr(v.Args[0], held, true)
			for _, a := range v.Args[1:] {
				w.expr(a, held, false)
			}
			return
		}
		if fl, ok := v.Fun.(*ast.FuncLit); ok {
			w.funcLit(fl)
		} else if isSel {
			if mu, _ := w.lockOp(v); mu == "" {
				if t := typeOfRecv(recv); t != "?" {
					w.cur.calls = append(w.cur.calls, callSite{callee: qual(t, m), held: held.copy()})
				}
			}
			w.expr(v.Fun.(*ast.SelectorExpr).X, held, false)
		} else if id, ok := v.Fun.(*ast.Ident); ok {
			w.cur.calls = append(w.cur.calls, callSite{callee: id.Name, held: held.copy()})
		}
		for _, a := range v.Args {
			w.expr(a, held, false)
		}
	}
}

// exported API / callbacks: entered with no lock held
func isEntryName(n string) bool {
	return ast.IsExported(n) || n == "monitor" || n == "notify"
}

// funcDeclRecv: the method named `name` (any receiver)
func funcDeclRecv(f *ast.File, name string) *ast.FuncDecl {
	for _, d := range f.Decls {
		if fd, ok := d.(*ast.FuncDecl); ok && fd.Recv != nil && fd.Name.Name == name && fd.Body != nil {
			return fd
		}
	}
	return nil
}


// testAndSetOneRegion: in the function body, the field `recv.field` is read (directly, not through a
// helper) and then written, and the mutex `lock` (printed form of the receiver of Lock/Unlock, e.g.
// "ref.mu" or "cs") is held without interruption from that read to that write. `heldAtEntry` says
// whether callers hold the lock. Statements are visited in source order; deferred unlocks do not count.
func testAndSetOneRegion(fd *ast.FuncDecl, lock, recv, field string, heldAtEntry bool) bool {
	if fd == nil || fd.Body == nil {
		return false
	}
	region, held := 0, heldAtEntry
	readRegion, ok, done := -1, false, false
	isField := func(e ast.Expr) bool {
		se, isSel := e.(*ast.SelectorExpr)
		return isSel && se.Sel.Name == field && exprString(se.X) == recv
	}
	var visit func(n ast.Node) bool
	visit = func(n ast.Node) bool {
		if done {
			return false
		}
		switch x := n.(type) {
		case *ast.DeferStmt:
			return false
		case *ast.FuncLit:
			return false
		case *ast.IfStmt:
			if x.Init != nil {
				ast.Inspect(x.Init, visit)
			}
			ast.Inspect(x.Cond, visit)
			// a branch that ends in a return does not influence what follows the if statement
			terminates := len(x.Body.List) > 0
			if terminates {
				_, terminates = x.Body.List[len(x.Body.List)-1].(*ast.ReturnStmt)
			}
			r0, h0 := region, held
			ast.Inspect(x.Body, visit)
			if terminates && !done {
				region, held = r0, h0
			}
			if x.Else != nil {
				ast.Inspect(x.Else, visit)
			}
			return false
		case *ast.CallExpr:
			if se, isSel := x.Fun.(*ast.SelectorExpr); isSel && exprString(se.X) == lock {
				switch se.Sel.Name {
				case "Lock":
					region++
					held = true
				case "Unlock":
					region++
					held = false
				}
			}
		case *ast.AssignStmt:
			for _, r := range x.Rhs {
				ast.Inspect(r, visit)
			}
			for _, l := range x.Lhs {
				if isField(l) {
					ok = held && readRegion == region
					done = true
					return false
				}
				ast.Inspect(l, visit)
			}
			return false
		case *ast.SelectorExpr:
			if isField(x) && held && readRegion != region {
				readRegion = region
			}
		}
		return true
	}
	ast.Inspect(fd.Body, visit)
	return ok
}

// holdsLockThroughout: the body starts with `lock.Lock()`, defers `lock.Unlock()` right after, and never touches
// the lock again (no window in which another callback could run)
func holdsLockThroughout(fd *ast.FuncDecl, lock string) bool {
	if fd == nil || fd.Body == nil || len(fd.Body.List) < 2 {
		return false
	}
	es, ok := fd.Body.List[0].(*ast.ExprStmt)
	if !ok || exprString(es.X) != lock+".Lock()" {
		return false
	}
	ds, ok := fd.Body.List[1].(*ast.DeferStmt)
	if !ok || exprString(ds.Call) != lock+".Unlock()" {
		return false
	}
	n := 0
	ast.Inspect(fd.Body, func(x ast.Node) bool {
		if call, isCall := x.(*ast.CallExpr); isCall {
			if se, isSel := call.Fun.(*ast.SelectorExpr); isSel && exprString(se.X) == lock {
				switch se.Sel.Name {
				case "Lock", "Unlock", "RLock", "RUnlock":
					n++
				}
			}
		}
		return true
	})
	return n == 2
}

func extractLocks(repo string, o *out) {
	files := []string{"grpcgcp/gcp_balancer.go", "grpcgcp/gcp_picker.go", "grpcgcp/gcp_multiendpoint.go",
		"grpcgcp/gcp_interceptor.go", "grpcgcp/multiendpoint/multiendpoint.go"}
	fns := map[string]*fnInfo{}
	for _, f := range files {
		af := parse(filepath.Join(repo, f))
		w := &lockWalker{file: f, fns: fns}
		for _, d := range af.Decls {
			fd, ok := d.(*ast.FuncDecl)
			if !ok || fd.Body == nil {
				continue
			}
			w.nanon = 0
			typ := ""
			if fd.Recv != nil && len(fd.Recv.List) == 1 {
				typ = strings.TrimPrefix(exprString(fd.Recv.List[0].Type), "*")
			}
			w.walkFunc(qual(typ, fd.Name.Name), fd.Body, isEntryName(fd.Name.Name))
		}
	}
	// must-hold at function entry: meet over all call sites (entry points start empty)
	all := lockset{"gb.mu": 'W', "gb.pickMu": 'W', "picker.mu": 'W', "ref.mu": 'W', "gme.mu": 'W', "me.mu": 'W', "cs.mu": 'W'}
	entryLocks := map[string]lockset{}
	for n, f := range fns {
		if f.entry {
			entryLocks[n] = lockset{}
		} else {
			entryLocks[n] = all.copy()
		}
	}
	for iter := 0; iter < 20; iter++ {
		changed := false
		for n, f := range fns {
			for _, c := range f.calls {
				callee, ok := fns[c.callee]
				if !ok || callee.entry {
					continue
				}
				at := lockset{}
				for k, v := range entryLocks[n] {
					at[k] = v
				}
				for k, v := range c.held {
					if v == 'W' || at[k] == 0 {
						at[k] = v
					}
				}
				m := meet(entryLocks[c.callee], at)
				if len(m) != len(entryLocks[c.callee]) || fmt.Sprint(m) != fmt.Sprint(entryLocks[c.callee]) {
					entryLocks[c.callee] = m
					changed = true
				}
			}
		}
		if !changed {
			break
		}
	}
	// functions never called from the analysed code and not entries: treat as entries (fail closed)
	called := map[string]bool{}
	for _, f := range fns {
		for _, c := range f.calls {
			called[c.callee] = true
		}
		for _, s := range f.spawns {
			called[s] = true
		}
	}
	for n, f := range fns {
		if !f.entry && !called[n] {
			entryLocks[n] = lockset{}
		}
	}
	// entry kinds reaching each function
	kinds := map[string]map[string]bool{}
	var reach func(n, kind string)
	reach = func(n, kind string) {
		if kinds[n] == nil {
			kinds[n] = map[string]bool{}
		}
		if kinds[n][kind] {
			return
		}
		kinds[n][kind] = true
		f := fns[n]
		if f == nil {
			return
		}
		for _, c := range f.calls {
			if _, ok := fns[c.callee]; ok {
				reach(c.callee, kind)
			}
		}
	}
	for n, f := range fns {
		if f.entry || !called[n] {
			reach(n, f.kind)
		}
	}
	// emit
	lines := []string{}
	for n, f := range fns {
		for _, a := range f.accesses {
			total := lockset{}
			for k, v := range entryLocks[n] {
				total[k] = v
			}
			for k, v := range a.held {
				if v == 'W' || total[k] == 0 {
					total[k] = v
				}
			}
			ws, rs := []string{}, []string{}
			for k, v := range total {
				if v == 'W' {
					ws = append(ws, leanStr(k))
				} else {
					rs = append(rs, leanStr(k))
				}
			}
			sort.Strings(ws)
			sort.Strings(rs)
			ks := []string{}
			for k := range kinds[n] {
				ks = append(ks, leanStr(k))
			}
			sort.Strings(ks)
			b := func(x bool) string {
				if x {
					return "true"
				}
				return "false"
			}
			lines = append(lines, fmt.Sprintf("  { field := %s, write := %s, atomic := %s, w := [%s], r := [%s], fn := %s, pos := %s, kinds := [%s] }",
				leanStr(a.field), b(a.write), b(a.atomic), strings.Join(ws, ", "), strings.Join(rs, ", "), leanStr(a.fn), leanStr(a.pos), strings.Join(ks, ", ")))
		}
	}
	sort.Strings(lines)
	// de-duplicate identical rows
	uniq := []string{}
	for i, l := range lines {
		if i == 0 || l != lines[i-1] {
			uniq = append(uniq, l)
		}
	}
	// may-hold at function entry: union over call sites (for the self-acquire / lock-order analysis)
	mayEntry := map[string]map[string]bool{}
	for n := range fns {
		mayEntry[n] = map[string]bool{}
	}
	for iter := 0; iter < 20; iter++ {
		changed := false
		for n, f := range fns {
			for _, c := range f.calls {
				if _, ok := fns[c.callee]; !ok {
					continue
				}
				add := func(k string) {
					if !mayEntry[c.callee][k] {
						mayEntry[c.callee][k] = true
						changed = true
					}
				}
				for k := range mayEntry[n] {
					add(k)
				}
				for k := range c.held {
					add(k)
				}
			}
		}
		if !changed {
			break
		}
	}
	acqLines := []string{}
	for n, f := range fns {
		for _, a := range f.acquires {
			hs := map[string]bool{}
			for k := range mayEntry[n] {
				hs[k] = true
			}
			for k := range a.held {
				hs[k] = true
			}
			l := []string{}
			for k := range hs {
				l = append(l, leanStr(k))
			}
			sort.Strings(l)
			acqLines = append(acqLines, fmt.Sprintf("  { fn := %s, pos := %s, mu := %s, heldBefore := [%s] }", leanStr(n), leanStr(a.pos), leanStr(a.mu), strings.Join(l, ", ")))
		}
	}
	sort.Strings(acqLines)

	// write-once side condition: the function that assigns cs.ClientStream starts with
	// `if cs.ClientStream != nil { return ... }`
	onceOK := false
	{
		af := parse(filepath.Join(repo, "grpcgcp/gcp_interceptor.go"))
		writers, guardedWriters := 0, 0
		for _, d := range af.Decls {
			fd, ok := d.(*ast.FuncDecl)
			if !ok || fd.Body == nil {
				continue
			}
			writes := false
			ast.Inspect(fd.Body, func(n ast.Node) bool {
				if as, ok := n.(*ast.AssignStmt); ok {
					for _, l := range as.Lhs {
						if se, ok := l.(*ast.SelectorExpr); ok && se.Sel.Name == "ClientStream" {
							writes = true
						}
					}
				}
				return true
			})
			if !writes {
				continue
			}
			writers++
			if len(fd.Body.List) > 0 {
				if ifs, ok := fd.Body.List[0].(*ast.IfStmt); ok {
					if be, ok := ifs.Cond.(*ast.BinaryExpr); ok && be.Op == token.NEQ && strings.HasSuffix(exprString(be.X), ".ClientStream") && exprString(be.Y) == "nil" {
						if len(ifs.Body.List) == 1 {
							if _, ok := ifs.Body.List[0].(*ast.ReturnStmt); ok {
								guardedWriters++
							}
						}
					}
				}
			}
		}
		onceOK = writers == 1 && guardedWriters == 1
	}
	onceStr := "false"
	if onceOK {
		onceStr = "true"
	}
	o.lines = append(o.lines, "def clientStreamWrittenOnlyWhenNil : Bool := "+onceStr)
	// condition-variable handshake (C12): every `….Broadcast()` of gcp_interceptor.go directly follows an
	// `….Unlock()` in its block — the wake-up is sent after a lock region ended, so a waiter is either
	// before its check or already inside cond.Wait (what makes `watcherFire` / `broadcast` atomic steps
	// of the stream model)
	{
		af := parse(filepath.Join(repo, "grpcgcp/gcp_interceptor.go"))
		total, after := 0, 0
		isCall := func(st ast.Stmt, name string) bool {
			es, ok := st.(*ast.ExprStmt)
			if !ok {
				return false
			}
			ce, ok := es.X.(*ast.CallExpr)
			if !ok {
				return false
			}
			se, ok := ce.Fun.(*ast.SelectorExpr)
			return ok && se.Sel.Name == name
		}
		ast.Inspect(af, func(n ast.Node) bool {
			var list []ast.Stmt
			switch b := n.(type) {
			case *ast.BlockStmt:
				list = b.List
			case *ast.CaseClause:
				list = b.Body
			case *ast.CommClause:
				list = b.Body
			}
			for i, st := range list {
				if isCall(st, "Broadcast") || isCall(st, "Signal") {
					total++
					if i > 0 && isCall(list[i-1], "Unlock") {
						after++
					}
				}
			}
			return true
		})
		// Broadcast calls that are not plain statements (deferred, in expressions) are not counted as handshaken
		other := 0
		ast.Inspect(af, func(n ast.Node) bool {
			if ce, ok := n.(*ast.CallExpr); ok {
				if se, ok := ce.Fun.(*ast.SelectorExpr); ok && (se.Sel.Name == "Broadcast" || se.Sel.Name == "Signal") {
					other++
				}
			}
			return true
		})
		o.lines = append(o.lines, fmt.Sprintf("def condBroadcasts : Nat := %d", other))
		o.lines = append(o.lines, fmt.Sprintf("def condBroadcastsAfterUnlock : Nat := %d", after))
		_ = total
	}
	// pool monitor (C15): one iteration of monitoredConn.monitor obtains the connection state once, from
	// `notify(wake)`, and waits with that same value on a context whose cancel function is `wake`
	// (`w, wake := context.WithCancel(ctx); s := mc.notify(wake); mc.conn.WaitForStateChange(w, s)`); `notify` holds the
	// GCPMultiEndpoint's read lock from its first statement to its return, reads the state once under it, keeps `wake`
	// in `mc.wake`, reports the value and returns it (F35: read and report are one step with respect to
	// UpdateMultiEndpoints' status update); UpdateMultiEndpoints calls `mc.wake()` for every pool after its
	// SetEndpointAvailability calls, which it makes per MultiEndpoint of the options in the order of that
	// MultiEndpoint's own endpoint list (F36, F34)
	{
		af := parse(filepath.Join(repo, "grpcgcp/gcp_multiendpoint.go"))
		ok := false
		readUnderLock := false
		if fd := funcDeclRecv(af, "monitor"); fd != nil {
			reads, v, wctx, wake := 0, "", "", ""
			waitOK, notifyOK := false, false
			ast.Inspect(fd.Body, func(n ast.Node) bool {
				switch x := n.(type) {
				case *ast.AssignStmt:
					if len(x.Rhs) == 1 {
						if ce, isCall := x.Rhs[0].(*ast.CallExpr); isCall {
							if se, isSel := ce.Fun.(*ast.SelectorExpr); isSel {
								if se.Sel.Name == "notify" && len(x.Lhs) == 1 && len(ce.Args) == 1 {
									if id, isId := x.Lhs[0].(*ast.Ident); isId {
										v = id.Name
									}
									notifyOK = exprString(ce.Args[0]) == wake && wake != ""
								}
								if exprString(ce.Fun) == "context.WithCancel" && len(x.Lhs) == 2 {
									wctx, wake = exprString(x.Lhs[0]), exprString(x.Lhs[1])
								}
							}
						}
					}
				case *ast.CallExpr:
					if se, isSel := x.Fun.(*ast.SelectorExpr); isSel {
						switch se.Sel.Name {
						case "GetState":
							reads++
						case "WaitForStateChange":
							if len(x.Args) == 2 {
								if id, isId := x.Args[1].(*ast.Ident); isId && id.Name == v && v != "" && exprString(x.Args[0]) == wctx && wctx != "" {
									waitOK = true
								}
							}
						}
					}
				}
				return true
			})
			ok = reads == 0 && waitOK && notifyOK
		}
		if fd := funcDeclRecv(af, "notify"); fd != nil && fd.Body != nil && len(fd.Body.List) >= 4 && fd.Type.Params != nil && len(fd.Type.Params.List) == 1 {
			// mc.gme.mu.RLock(); defer mc.gme.mu.RUnlock(); state := mc.conn.GetState(); mc.wake = wake; mc.reportLocked(state); return state
			param := ""
			if len(fd.Type.Params.List[0].Names) == 1 {
				param = fd.Type.Params.List[0].Names[0].Name
			}
			l := fd.Body.List
			s0, s1 := "", ""
			if es, isE := l[0].(*ast.ExprStmt); isE {
				s0 = exprString(es.X)
			}
			if ds, isD := l[1].(*ast.DeferStmt); isD {
				s1 = exprString(ds.Call)
			}
			reads, v, reported, returned, locks, keeps := 0, "", false, false, 0, false
			ast.Inspect(fd.Body, func(n ast.Node) bool {
				switch x := n.(type) {
				case *ast.AssignStmt:
					if len(x.Lhs) == 1 && len(x.Rhs) == 1 {
						if ce, isCall := x.Rhs[0].(*ast.CallExpr); isCall {
							if se, isSel := ce.Fun.(*ast.SelectorExpr); isSel && se.Sel.Name == "GetState" {
								if id, isId := x.Lhs[0].(*ast.Ident); isId {
									v = id.Name
								}
							}
						}
						if exprString(x.Lhs[0]) == "mc.wake" && exprString(x.Rhs[0]) == param && param != "" {
							keeps = true
						}
					}
				case *ast.CallExpr:
					if se, isSel := x.Fun.(*ast.SelectorExpr); isSel {
						switch se.Sel.Name {
						case "GetState":
							reads++
						case "reportLocked":
							if len(x.Args) == 1 {
								if id, isId := x.Args[0].(*ast.Ident); isId && id.Name == v && v != "" {
									reported = true
								}
							}
						case "RLock", "RUnlock", "Lock", "Unlock":
							locks++
						}
					}
				case *ast.ReturnStmt:
					if len(x.Results) == 1 {
						if id, isId := x.Results[0].(*ast.Ident); isId && id.Name == v && v != "" {
							returned = true
						}
					}
				}
				return true
			})
			readUnderLock = s0 == "mc.gme.mu.RLock()" && s1 == "mc.gme.mu.RUnlock()" && locks == 2 && reads == 1 && reported && returned && keeps
		}
		o.lines = append(o.lines, fmt.Sprintf("def monitorReadsStateUnderLock : Bool := %v", readUnderLock))
		wakes, ordered := false, false
		if fd := funcDeclRecv(af, "UpdateMultiEndpoints"); fd != nil && fd.Body != nil {
			lastSet, wakePos := token.NoPos, token.NoPos
			ast.Inspect(fd.Body, func(n ast.Node) bool {
				if ce, isCall := n.(*ast.CallExpr); isCall {
					if se, isSel := ce.Fun.(*ast.SelectorExpr); isSel && se.Sel.Name == "SetEndpointAvailability" && ce.Pos() > lastSet {
						lastSet = ce.Pos()
					}
				}
				// for _, mc := range gme.pools { if mc.wake != nil { mc.wake() } }
				if rs, isRange := n.(*ast.RangeStmt); isRange && strings.HasSuffix(exprString(rs.X), ".pools") {
					ast.Inspect(rs.Body, func(m ast.Node) bool {
						if ce, isCall := m.(*ast.CallExpr); isCall && strings.HasSuffix(exprString(ce.Fun), ".wake") && len(ce.Args) == 0 {
							wakePos = ce.Pos()
						}
						return true
					})
				}
				// for name, meo := range meOpts.MultiEndpoints { me := gme.mes[name]; for _, e := range meo.Endpoints { me.SetEndpointAvailability(e, …) } }
				if outer, isRange := n.(*ast.RangeStmt); isRange && strings.HasSuffix(exprString(outer.X), ".MultiEndpoints") {
					ast.Inspect(outer.Body, func(m ast.Node) bool {
						if inner, isR := m.(*ast.RangeStmt); isR && strings.HasSuffix(exprString(inner.X), ".Endpoints") {
							ast.Inspect(inner.Body, func(k ast.Node) bool {
								if ce, isCall := k.(*ast.CallExpr); isCall {
									if se, isSel := ce.Fun.(*ast.SelectorExpr); isSel && se.Sel.Name == "SetEndpointAvailability" && len(ce.Args) == 2 {
										if v, isId := inner.Value.(*ast.Ident); isId && exprString(ce.Args[0]) == v.Name {
											ordered = true
										}
									}
								}
								return true
							})
						}
						return true
					})
				}
				return true
			})
			wakes = wakePos != token.NoPos && lastSet != token.NoPos && wakePos > lastSet
		}
		o.lines = append(o.lines, fmt.Sprintf("def statusUpdateWakesMonitors : Bool := %v", wakes))
		o.lines = append(o.lines, fmt.Sprintf("def statusUpdateInPriorityOrder : Bool := %v", ordered))
		o.lines = append(o.lines, fmt.Sprintf("def monitorWaitsOnNotifiedState : Bool := %v", ok))
	}
	// check-then-act under one lock region (the models take these as single atomic steps):
	//  C12: initStream tests cs.ClientStream == nil and assigns it while the callers' cs mutex stays held
	//  C07: refresh tests ref.refreshing and sets it within one ref.mu region
	{
		inf := parse(filepath.Join(repo, "grpcgcp/gcp_interceptor.go"))
		o.lines = append(o.lines, fmt.Sprintf("def initStreamTestAndSetAtomic : Bool := %v",
			testAndSetOneRegion(funcDeclRecv(inf, "initStream"), "cs", "cs", "ClientStream", true)))
		bf := parse(filepath.Join(repo, "grpcgcp/gcp_balancer.go"))
		rf := funcDeclRecv(bf, "refreshLocked") // (the body of refresh / refreshSince, both of which hold gb.mu throughout)
		if rf == nil {
			rf = funcDeclRecv(bf, "refresh")
		}
		o.lines = append(o.lines, fmt.Sprintf("def refreshTestAndSetAtomic : Bool := %v",
			testAndSetOneRegion(rf, "ref.mu", "ref", "refreshing", false)))
	}
	// C01 / C07 (F22): the Done callback built by Pick does not read the channel's SubConn itself (it would do so
	// before the balancer lock is taken, and a refresh swaps the SubConn under that lock): it hands the subConnRef to
	// bindSubConnRef, which reads it after gb.mu.Lock()
	{
		pf := parse(filepath.Join(repo, "grpcgcp/gcp_picker.go"))
		ok := false
		if pick := funcDeclRecv(pf, "Pick"); pick != nil {
			readsInCallback, bindsRef := 0, 0
			ast.Inspect(pick.Body, func(n ast.Node) bool {
				fl, isLit := n.(*ast.FuncLit)
				if !isLit {
					return true
				}
				ast.Inspect(fl.Body, func(m ast.Node) bool {
					if call, isCall := m.(*ast.CallExpr); isCall {
						if se, isSel := call.Fun.(*ast.SelectorExpr); isSel {
							switch se.Sel.Name {
							case "getSubConn":
								readsInCallback++
							case "bindSubConnRef":
								bindsRef++
							case "bindSubConn":
								readsInCallback++ // binding an already evaluated SubConn
							}
						}
					}
					return true
				})
				return false
			})
			bf := parse(filepath.Join(repo, "grpcgcp/gcp_balancer.go"))
			lockFirst := false
			if fd := funcDeclRecv(bf, "bindSubConnRef"); fd != nil && len(fd.Body.List) > 0 {
				if es, isExpr := fd.Body.List[0].(*ast.ExprStmt); isExpr {
					lockFirst = exprString(es.X) == "gb.mu.Lock()"
				}
			}
			ok = readsInCallback == 0 && bindsRef >= 1 && lockFirst
		}
		o.lines = append(o.lines, fmt.Sprintf("def bindReadsSubConnUnderLock : Bool := %v", ok))
	}
	// the balancer callbacks and refresh are single atomic steps of the pool model: each holds gb.mu from its first
	// statement to its return (C04, C07, C20)
	{
		bf := parse(filepath.Join(repo, "grpcgcp/gcp_balancer.go"))
		ok := true
		for _, fn := range []string{"UpdateClientConnState", "UpdateSubConnState", "refresh"} {
			ok = ok && holdsLockThroughout(funcDeclRecv(bf, fn), "gb.mu")
		}
		if fd := funcDeclRecv(bf, "refreshSince"); fd != nil {
			ok = ok && holdsLockThroughout(fd, "gb.mu")
		}
		// the picker starts a refresh through refreshSince (its decision is re-validated under the lock, F28)
		pf2 := parse(filepath.Join(repo, "grpcgcp/gcp_picker.go"))
		plain := 0
		if du := funcDeclRecv(pf2, "detectUnresponsive"); du != nil {
			ast.Inspect(du.Body, func(n ast.Node) bool {
				if call, isCall := n.(*ast.CallExpr); isCall {
					if se, isSel := call.Fun.(*ast.SelectorExpr); isSel && se.Sel.Name == "refresh" {
						plain++
					}
				}
				return true
			})
		}
		o.lines = append(o.lines, fmt.Sprintf("def detectorRefreshesUnvalidated : Nat := %d", plain))
		// C07 (F33): "did the call start after the last response?" and the increment of the deadline-exceeded counter
		// are one critical section of the subConnRef's mutex, and so is every other write of that counter (the reset
		// by a response, the reset by the swap): in the whole package `deCalls` is written only between
		// `<x>.mu.Lock()` and the matching unlock of the same receiver, never through sync/atomic; the function that
		// increments it compares the call's start with `lastResp` in the same region
		{
			writes, unlocked, atomics, testAndCount := 0, 0, 0, 0
			for _, f := range []string{"gcp_balancer.go", "gcp_picker.go"} {
				af := parse(filepath.Join(repo, "grpcgcp", f))
				for _, d := range af.Decls {
					fd, isFn := d.(*ast.FuncDecl)
					if !isFn || fd.Body == nil {
						continue
					}
					held := map[string]bool{} // receiver spelling -> its mu is write-locked (deferred unlock: to the end)
					hasCmp, hasInc := false, false
					var walk func(n ast.Node) bool
					walk = func(n ast.Node) bool {
						switch x := n.(type) {
						case *ast.DeferStmt:
							return false
						case *ast.FuncLit:
							return false
						case *ast.CallExpr:
							if se, isSel := x.Fun.(*ast.SelectorExpr); isSel {
								recv := exprString(se.X)
								if strings.HasSuffix(recv, ".mu") {
									switch se.Sel.Name {
									case "Lock":
										held[strings.TrimSuffix(recv, ".mu")] = true
									case "Unlock":
										held[strings.TrimSuffix(recv, ".mu")] = false
									}
								}
								if rootIdent(se.X) == "atomic" && len(x.Args) > 0 && strings.Contains(exprString(x.Args[0]), "deCalls") {
									atomics++
								}
								if se.Sel.Name == "Before" && len(x.Args) == 1 && strings.HasSuffix(exprString(x.Args[0]), ".lastResp") &&
									held[strings.TrimSuffix(exprString(x.Args[0]), ".lastResp")] {
									hasCmp = true
								}
							}
						case *ast.AssignStmt:
							for _, l := range x.Lhs {
								if se, isSel := l.(*ast.SelectorExpr); isSel && se.Sel.Name == "deCalls" {
									writes++
									if !held[exprString(se.X)] {
										unlocked++
									}
								}
							}
						case *ast.IncDecStmt:
							if se, isSel := x.X.(*ast.SelectorExpr); isSel && se.Sel.Name == "deCalls" {
								writes++
								if !held[exprString(se.X)] {
									unlocked++
								} else if hasCmp {
									hasInc = true
								}
							}
						}
						return true
					}
					ast.Inspect(fd.Body, walk)
					if hasInc {
						testAndCount++
					}
				}
			}
			o.lines = append(o.lines, fmt.Sprintf("def deCallsWrites : Nat := %d", writes))
			o.lines = append(o.lines, fmt.Sprintf("def deCallsWritesOutsideLock : Nat := %d", unlocked))
			o.lines = append(o.lines, fmt.Sprintf("def deCallsAtomicAccesses : Nat := %d", atomics))
			o.lines = append(o.lines, fmt.Sprintf("def deCallsTestAndCountRegions : Nat := %d", testAndCount))
		}
		o.lines = append(o.lines, fmt.Sprintf("def balancerCallbacksHoldLock : Bool := %v", ok))
	}
	// round-robin cursor (C09): rrRefId is advanced only by `atomic.AddUint<bits>(&….rrRefId, 1)`, <bits> being
	// the width of the field's declared type; the index is the result reduced modulo the list length in the same width
	{
		af := parse(filepath.Join(repo, "grpcgcp/gcp_balancer.go"))
		adds, others := 0, 0
		bits, addBits, modBits := 0, 0, 0
		widthOf := map[string]int{"uint32": 32, "uint64": 64}
		mentions := func(e ast.Expr) bool { return strings.Contains(exprString(e), "rrRefId") }
		ast.Inspect(af, func(n ast.Node) bool {
			switch x := n.(type) {
			case *ast.Field:
				for _, nm := range x.Names {
					if nm.Name == "rrRefId" {
						bits = widthOf[exprString(x.Type)]
					}
				}
			case *ast.BinaryExpr:
				// atomic.AddUintN(&gb.rrRefId, 1) % uintN(len(…))
				if x.Op.String() == "%" && mentions(x.X) {
					if ce, ok := x.Y.(*ast.CallExpr); ok {
						modBits = widthOf[exprString(ce.Fun)]
					}
				}
			case *ast.CallExpr:
				if se, ok := x.Fun.(*ast.SelectorExpr); ok && rootIdent(se.X) == "atomic" && len(x.Args) > 0 && mentions(x.Args[0]) {
					switch se.Sel.Name {
					case "AddUint32", "AddUint64":
						if len(x.Args) == 2 && exprString(x.Args[1]) == "1" {
							adds++
							addBits = widthOf["uint"+strings.TrimPrefix(se.Sel.Name, "AddUint")]
						} else {
							others++
						}
					case "LoadUint32", "LoadUint64":
					default:
						others++
					}
				}
			case *ast.AssignStmt:
				for _, l := range x.Lhs {
					if mentions(l) {
						others++
					}
				}
			case *ast.IncDecStmt:
				if mentions(x.X) {
					others++
				}
			}
			return true
		})
		o.lines = append(o.lines, fmt.Sprintf("def rrCursorAtomicAdds : Nat := %d", adds))
		o.lines = append(o.lines, fmt.Sprintf("def rrCursorOtherWrites : Nat := %d", others))
		o.lines = append(o.lines, fmt.Sprintf("def rrCursorBits : Nat := %d", bits))
		o.lines = append(o.lines, fmt.Sprintf("def rrCursorAddBits : Nat := %d", addBits))
		o.lines = append(o.lines, fmt.Sprintf("def rrCursorModBits : Nat := %d", modBits))
	}
	// C17 / C03: the stream low watermark is a uint32 and the stream counters are int32: every read of the watermark
	// for a comparison is widened on the spot - the call is the sole argument of an `int64(…)` conversion - so Go's
	// typing forces the comparison to be made in int64 (Proofs/Widths.lean); the only other reads are the
	// `== 0` tests of the defaulting code
	{
		widened, zeroTests, other := 0, 0, 0
		for _, f := range []string{"gcp_balancer.go", "gcp_picker.go"} {
			af := parse(filepath.Join(repo, "grpcgcp", f))
			covered := map[ast.Node]bool{}
			isRead := func(e ast.Expr) bool {
				ce, ok := e.(*ast.CallExpr)
				if !ok {
					return false
				}
				se, ok := ce.Fun.(*ast.SelectorExpr)
				return ok && se.Sel.Name == "GetMaxConcurrentStreamsLowWatermark"
			}
			ast.Inspect(af, func(n ast.Node) bool {
				switch x := n.(type) {
				case *ast.CallExpr:
					if id, ok := x.Fun.(*ast.Ident); ok && id.Name == "int64" && len(x.Args) == 1 && isRead(x.Args[0]) {
						widened++
						covered[x.Args[0]] = true
					} else if isRead(x) && !covered[x] {
						other++
					}
				case *ast.BinaryExpr:
					if (x.Op.String() == "==" || x.Op.String() == "!=") && isRead(x.X) && exprString(x.Y) == "0" {
						zeroTests++
						covered[x.X] = true
					}
				}
				return true
			})
		}
		o.lines = append(o.lines, fmt.Sprintf("def watermarkReadsWidened : Nat := %d", widened))
		o.lines = append(o.lines, fmt.Sprintf("def watermarkZeroTests : Nat := %d", zeroTests))
		o.lines = append(o.lines, fmt.Sprintf("def watermarkOtherReads : Nat := %d", other))
	}
	// C06: enforceMinSize is `for len(gb.scRefs) < min { if !gb.addSubConn() { break } }`: one loop whose guard
	// compares the pool size, whose body calls addSubConn exactly once, as the whole condition of an `if` that
	// leaves the loop (break / return) - whatever the failure pattern of the connection factory, every
	// iteration either adds a connection or is the last one (Proofs/Enforce.lean)
	{
		shape := false
		af := parse(filepath.Join(repo, "grpcgcp", "gcp_balancer.go"))
		for _, d := range af.Decls {
			fd, isFn := d.(*ast.FuncDecl)
			if !isFn || fd.Name.Name != "enforceMinSize" || fd.Body == nil {
				continue
			}
			loops, calls, guarded := 0, 0, 0
			guardOK := false
			resultVar := "" // the variable that holds addSubConn's result, where it is not tested directly
			ast.Inspect(fd.Body, func(n ast.Node) bool {
				switch x := n.(type) {
				case *ast.ForStmt:
					loops++
					if be, ok := x.Cond.(*ast.BinaryExpr); ok && be.Op.String() == "<" && exprString(be.X) == "len(gb.scRefs)" {
						guardOK = true
					}
				case *ast.RangeStmt:
					loops++
				case *ast.CallExpr:
					if exprString(x.Fun) == "gb.addSubConn" {
						calls++
					}
				case *ast.AssignStmt:
					// ok := gb.addSubConn()
					if len(x.Lhs) == 1 && len(x.Rhs) == 1 && exprString(x.Rhs[0]) == "gb.addSubConn()" {
						resultVar = exprString(x.Lhs[0])
					}
				case *ast.IfStmt:
					if as, ok := x.Init.(*ast.AssignStmt); ok && len(as.Lhs) == 1 && len(as.Rhs) == 1 && exprString(as.Rhs[0]) == "gb.addSubConn()" {
						resultVar = exprString(as.Lhs[0])
					}
					if (exprString(x.Cond) == "!gb.addSubConn()" && x.Init == nil || resultVar != "" && exprString(x.Cond) == "!"+resultVar) && len(x.Body.List) > 0 {
						switch last := x.Body.List[len(x.Body.List)-1].(type) {
						case *ast.BranchStmt:
							if last.Tok.String() == "break" && last.Label == nil {
								guarded++
							}
						case *ast.ReturnStmt:
							guarded++
						}
					}
				}
				return true
			})
			shape = loops == 1 && calls == 1 && guarded == 1 && guardOK
		}
		o.lines = append(o.lines, fmt.Sprintf("def enforceLoopStopsAtFailure : Bool := %v", shape))
	}
	o.extraFiles = map[string]string{"Accesses.lean": "/- GENERATED by tools/extract (locks.go) from /repo's working tree on every run. Do not edit. -/\nimport GcpVerif.Model.Sync\nnamespace GcpVerif.Generated\nopen GcpVerif.Sync\n\ndef accesses : List Access := [\n" +
		strings.Join(uniq, ",\n") + "\n]\n\ndef acquisitions : List Acquisition := [\n" + strings.Join(acqLines, ",\n") + "\n]\n\nend GcpVerif.Generated\n"}
}
