// extract: reads facts from the Go sources of /repo's current working tree (go/parser only) and
// writes them as Lean definitions into GcpVerif/Generated/*.lean. A file is rewritten only when
// its content changes, so `lake build` re-checks the dependent theorems exactly when a fact moved.
// Anything the extractor does not understand is emitted as a value no theorem accepts (fail closed).
package main

import (
	"flag"
	"fmt"
	"go/ast"
	"go/constant"
	"go/parser"
	"go/printer"
	"go/token"
	"os"
	"path/filepath"
	"sort"
	"strconv"
	"strings"
)

var fset = token.NewFileSet()

func parse(path string) *ast.File {
	f, err := parser.ParseFile(fset, path, nil, parser.ParseComments)
	if err != nil {
		fmt.Fprintf(os.Stderr, "extract: cannot parse %s: %v\n", path, err)
		os.Exit(1)
	}
	return f
}

// constants of a file, evaluated syntactically
type env map[string]constant.Value

var timeUnits = map[string]int64{"Nanosecond": 1, "Microsecond": 1e3, "Millisecond": 1e6, "Second": 1e9, "Minute": 60e9, "Hour": 3600e9}

func eval(e ast.Expr, en env) constant.Value {
	switch v := e.(type) {
	case *ast.BasicLit:
		return constant.MakeFromLiteral(v.Value, v.Kind, 0)
	case *ast.ParenExpr:
		return eval(v.X, en)
	case *ast.Ident:
		if c, ok := en[v.Name]; ok {
			return c
		}
		if v.Name == "true" {
			return constant.MakeBool(true)
		}
		if v.Name == "false" {
			return constant.MakeBool(false)
		}
	case *ast.SelectorExpr:
		if x, ok := v.X.(*ast.Ident); ok && x.Name == "time" {
			if u, ok := timeUnits[v.Sel.Name]; ok {
				return constant.MakeInt64(u)
			}
		}
	case *ast.BinaryExpr:
		a, b := eval(v.X, en), eval(v.Y, en)
		if a.Kind() == constant.Unknown || b.Kind() == constant.Unknown {
			return constant.MakeUnknown()
		}
		if v.Op == token.SHL || v.Op == token.SHR {
			s, ok := constant.Uint64Val(b)
			if !ok {
				return constant.MakeUnknown()
			}
			return constant.Shift(a, v.Op, uint(s))
		}
		return constant.BinaryOp(a, v.Op, b)
	case *ast.UnaryExpr:
		a := eval(v.X, en)
		if a.Kind() == constant.Unknown {
			return a
		}
		return constant.UnaryOp(v.Op, a, 0)
	case *ast.CallExpr: // conversions such as uint32(5)
		if len(v.Args) == 1 {
			return eval(v.Args[0], en)
		}
	}
	return constant.MakeUnknown()
}

func fileConsts(f *ast.File) env {
	en := env{}
	for pass := 0; pass < 3; pass++ {
		for _, d := range f.Decls {
			gd, ok := d.(*ast.GenDecl)
			if !ok || gd.Tok != token.CONST {
				continue
			}
			for _, s := range gd.Specs {
				vs := s.(*ast.ValueSpec)
				for i, n := range vs.Names {
					if i < len(vs.Values) {
						if c := eval(vs.Values[i], en); c.Kind() != constant.Unknown {
							en[n.Name] = c
						}
					}
				}
			}
		}
	}
	return en
}

func leanStr(s string) string {
	var sb strings.Builder
	sb.WriteByte('"')
	for _, r := range s {
		switch {
		case r == '"' || r == '\\':
			sb.WriteByte('\\')
			sb.WriteRune(r)
		case r < 0x20 || r > 0x7e:
			fmt.Fprintf(&sb, "\\u{%x}", r)
		default:
			sb.WriteRune(r)
		}
	}
	sb.WriteByte('"')
	return sb.String()
}

type out struct {
	lines      []string
	extraFiles map[string]string
}

func (o *out) nat(name string, c constant.Value, ok bool) {
	if ok && c.Kind() == constant.Int {
		o.lines = append(o.lines, fmt.Sprintf("def %s : Int := %s", name, c.ExactString()))
	} else {
		o.lines = append(o.lines, fmt.Sprintf("def %s : Int := -999999999  -- NOT FOUND / not understood", name))
	}
}
func (o *out) str(name string, c constant.Value, ok bool) {
	if ok && c.Kind() == constant.String {
		o.lines = append(o.lines, fmt.Sprintf("def %s : String := %s", name, leanStr(constant.StringVal(c))))
	} else {
		o.lines = append(o.lines, fmt.Sprintf("def %s : String := \"<<not found>>\"", name))
	}
}
func (o *out) strList(name string, l []string) {
	q := []string{}
	for _, s := range l {
		q = append(q, leanStr(s))
	}
	o.lines = append(o.lines, fmt.Sprintf("def %s : List String := [%s]", name, strings.Join(q, ", ")))
}

func funcDecl(f *ast.File, name string) *ast.FuncDecl {
	for _, d := range f.Decls {
		if fd, ok := d.(*ast.FuncDecl); ok && fd.Name.Name == name {
			return fd
		}
	}
	return nil
}

func rootIdent(e ast.Expr) string {
	for {
		switch v := e.(type) {
		case *ast.Ident:
			return v.Name
		case *ast.SelectorExpr:
			e = v.X
		case *ast.IndexExpr:
			e = v.X
		case *ast.StarExpr:
			e = v.X
		case *ast.ParenExpr:
			e = v.X
		case *ast.CallExpr:
			e = v.Fun
		default:
			return ""
		}
	}
}

func exprString(e ast.Expr) string {
	var sb strings.Builder
	printer.Fprint(&sb, fset, e)
	return sb.String()
}

func main() {
	repo := flag.String("repo", "/repo", "")
	outDir := flag.String("out", "", "")
	flag.Parse()
	o := &out{}
	get := func(en env, k string) (constant.Value, bool) { c, ok := en[k]; return c, ok }

	// e2e-checksum
	{
		en := fileConsts(parse(filepath.Join(*repo, "e2e-checksum/main.go")))
		c, ok := get(en, "checksumField")
		o.nat("checksumField", c, ok)
		c, ok = get(en, "checksumWireType")
		o.nat("checksumWireType", c, ok)
	}
	// grpcgcp balancer defaults
	{
		en := fileConsts(parse(filepath.Join(*repo, "grpcgcp/gcp_balancer.go")))
		for _, k := range []string{"defaultMinSize", "defaultMaxSize", "defaultMaxStreams"} {
			c, ok := get(en, k)
			o.nat(k, c, ok)
		}
		c, ok := get(en, "Name")
		o.str("balancerName", c, ok)
	}
	// spanner prober
	{
		en := fileConsts(parse(filepath.Join(*repo, "spanner_prober/prober/interceptors.go")))
		c, ok := get(en, "gfeT4T7prefix")
		o.str("gfeT4T7prefix", c, ok)
		c, ok = get(en, "serverTimingKey")
		o.str("serverTimingKey", c, ok)
		pf := parse(filepath.Join(*repo, "spanner_prober/prober/proberlib.go"))
		en = fileConsts(pf)
		c, ok = get(en, "baseLRORetryDelay")
		o.nat("baseLRORetryDelay", c, ok)
		c, ok = get(en, "maxLRORetryDelay")
		o.nat("maxLRORetryDelay", c, ok)
		// the growth factor of backoff(): the only float literal in its body, as a ratio
		num, den := "0", "1"
		if fd := funcDecl(pf, "backoff"); fd != nil {
			ast.Inspect(fd.Body, func(n ast.Node) bool {
				if bl, ok := n.(*ast.BasicLit); ok && bl.Kind == token.FLOAT {
					v := constant.MakeFromLiteral(bl.Value, token.FLOAT, 0)
					num, den = constant.Num(v).ExactString(), constant.Denom(v).ExactString()
				}
				return true
			})
		}
		o.lines = append(o.lines, fmt.Sprintf("def backoffFactorNum : Nat := %s", num), fmt.Sprintf("def backoffFactorDen : Nat := %s", den))
		// probe types accepted by ParseProbeType
		types := []string{}
		if fd := funcDecl(pf, "ParseProbeType"); fd != nil {
			ast.Inspect(fd.Body, func(n ast.Node) bool {
				if cc, ok := n.(*ast.CaseClause); ok {
					for _, e := range cc.List {
						if bl, ok := e.(*ast.BasicLit); ok && bl.Kind == token.STRING {
							s, _ := strconv.Unquote(bl.Value)
							types = append(types, s)
						}
					}
				}
				return true
			})
		}
		o.strList("probeTypes", types)
		// validateFlags: the regexes and which flag each is applied to
		mf := parse(filepath.Join(*repo, "spanner_prober/main.go"))
		regexVar := map[string]string{}
		uses := []string{}
		if fd := funcDecl(mf, "validateFlags"); fd != nil {
			ast.Inspect(fd.Body, func(n ast.Node) bool {
				if as, ok := n.(*ast.AssignStmt); ok && len(as.Rhs) == 1 {
					if call, ok := as.Rhs[0].(*ast.CallExpr); ok {
						if se, ok := call.Fun.(*ast.SelectorExpr); ok && se.Sel.Name == "Compile" && len(call.Args) == 1 {
							if bl, ok := call.Args[0].(*ast.BasicLit); ok {
								if id, ok := as.Lhs[0].(*ast.Ident); ok {
									s, _ := strconv.Unquote(bl.Value)
									regexVar[id.Name] = s
								}
							}
						}
						// matched := re.MatchString(*flagVar)
						if se, ok := call.Fun.(*ast.SelectorExpr); ok && se.Sel.Name == "MatchString" && len(call.Args) == 1 {
							if re, ok := se.X.(*ast.Ident); ok {
								if st, ok := call.Args[0].(*ast.StarExpr); ok {
									if fl, ok := st.X.(*ast.Ident); ok {
										uses = append(uses, fl.Name+"="+re.Name)
									}
								}
							}
						}
					}
				}
				return true
			})
		}
		sort.Strings(uses)
		pairs := []string{}
		for _, u := range uses {
			kv := strings.SplitN(u, "=", 2)
			pairs = append(pairs, fmt.Sprintf("(%s, %s)", leanStr(kv[0]), leanStr(regexVar[kv[1]])))
		}
		o.lines = append(o.lines, fmt.Sprintf("def flagRegexes : List (String × String) := [%s]", strings.Join(pairs, ", ")))
	}

	// ---- shape facts (aliasing / mutation discipline, first-update-wins guard, ResolverError body)
	{
		bf := parse(filepath.Join(*repo, "grpcgcp/gcp_balancer.go"))
		clones, writesParam := false, false
		if fd := funcDecl(bf, "initializeConfig"); fd != nil && fd.Type.Params != nil && len(fd.Type.Params.List) == 1 {
			param := fd.Type.Params.List[0].Names[0].Name
			ast.Inspect(fd.Body, func(n ast.Node) bool {
				switch v := n.(type) {
				case *ast.CallExpr:
					if se, ok := v.Fun.(*ast.SelectorExpr); ok && se.Sel.Name == "Clone" && len(v.Args) == 1 && rootIdent(v.Args[0]) == param {
						clones = true
					}
				case *ast.AssignStmt:
					for _, l := range v.Lhs {
						if _, isIdent := l.(*ast.Ident); !isIdent && rootIdent(l) == param {
							writesParam = true
						}
					}
				case *ast.IncDecStmt:
					if rootIdent(v.X) == param {
						writesParam = true
					}
				}
				return true
			})
		}
		// every call of initializeConfig sits inside `if gb.cfg == nil`
		guarded, calls := 0, 0
		for _, d := range bf.Decls {
			fd, ok := d.(*ast.FuncDecl)
			if !ok || fd.Body == nil {
				continue
			}
			var walk func(n ast.Node, inGuard bool)
			walk = func(n ast.Node, inGuard bool) {
				ast.Inspect(n, func(m ast.Node) bool {
					if ifs, ok := m.(*ast.IfStmt); ok && m != n {
						g := inGuard
						if be, ok := ifs.Cond.(*ast.BinaryExpr); ok && be.Op == token.EQL {
							if se, ok := be.X.(*ast.SelectorExpr); ok && se.Sel.Name == "cfg" {
								if id, ok := be.Y.(*ast.Ident); ok && id.Name == "nil" {
									g = true
								}
							}
						}
						walk(ifs.Body, g)
						if ifs.Else != nil {
							walk(ifs.Else, inGuard)
						}
						return false
					}
					if ce, ok := m.(*ast.CallExpr); ok {
						if se, ok := ce.Fun.(*ast.SelectorExpr); ok && se.Sel.Name == "initializeConfig" {
							calls++
							if inGuard {
								guarded++
							}
						}
					}
					return true
				})
			}
			walk(fd.Body, false)
		}
		// ResolverError: nothing but calls on the logger
		onlyLogs := false
		if fd := funcDecl(bf, "ResolverError"); fd != nil {
			onlyLogs = true
			for _, st := range fd.Body.List {
				es, ok := st.(*ast.ExprStmt)
				if !ok {
					onlyLogs = false
					continue
				}
				ce, ok := es.X.(*ast.CallExpr)
				if !ok || !strings.Contains(exprString(ce.Fun), ".log.") {
					onlyLogs = false
				}
			}
		}
		mf := parse(filepath.Join(*repo, "grpcgcp/gcp_multiendpoint.go"))
		gmeClones, retClone := false, false
		if fd := funcDecl(mf, "NewGCPMultiEndpoint"); fd != nil {
			ast.Inspect(fd.Body, func(n ast.Node) bool {
				if kv, ok := n.(*ast.KeyValueExpr); ok {
					if id, ok := kv.Key.(*ast.Ident); ok && id.Name == "gcpConfig" && strings.Contains(exprString(kv.Value), "proto.Clone(") {
						gmeClones = true
					}
				}
				return true
			})
		}
		if fd := funcDecl(mf, "GCPConfig"); fd != nil && len(fd.Body.List) == 1 {
			if rs, ok := fd.Body.List[0].(*ast.ReturnStmt); ok && len(rs.Results) == 1 && strings.Contains(exprString(rs.Results[0]), "proto.Clone(") {
				retClone = true
			}
		}
		b := func(x bool) string {
			if x {
				return "true"
			}
			return "false"
		}
		o.lines = append(o.lines,
			"def initializeConfigClonesParam : Bool := "+b(clones),
			"def initializeConfigWritesParam : Bool := "+b(writesParam),
			fmt.Sprintf("def initializeConfigCalls : Nat := %d", calls),
			fmt.Sprintf("def initializeConfigGuardedCalls : Nat := %d", guarded),
			"def resolverErrorOnlyLogs : Bool := "+b(onlyLogs),
			"def gmeClonesCallerConfig : Bool := "+b(gmeClones),
			"def gcpConfigReturnsClone : Bool := "+b(retClone))
	}

	extractLocks(*repo, o)
	for name, content := range o.extraFiles {
		dst := filepath.Join(*outDir, name)
		old, _ := os.ReadFile(dst)
		if string(old) != content {
			if err := os.WriteFile(dst, []byte(content), 0o644); err != nil {
				fmt.Fprintln(os.Stderr, err)
				os.Exit(1)
			}
		}
	}

	body := "/- GENERATED by tools/extract from /repo's working tree on every run. Do not edit. -/\nnamespace GcpVerif.Generated\n\n" +
		strings.Join(o.lines, "\n") + "\n\nend GcpVerif.Generated\n"
	dst := filepath.Join(*outDir, "Consts.lean")
	old, _ := os.ReadFile(dst)
	if string(old) != body {
		if err := os.WriteFile(dst, []byte(body), 0o644); err != nil {
			fmt.Fprintln(os.Stderr, err)
			os.Exit(1)
		}
	}
	for _, l := range o.lines {
		fmt.Println(l)
	}
}
