#!/bin/bash
# compile_seed.sh <seed-id>: does seeded/<id>/patch.diff still apply to /repo HEAD and compile? (prints NOAPPLY/BROKEN, nothing if fine)
# all seeds: ls seeded | xargs -P 8 -I{} tools/compile_seed.sh {}
s=$1
wt=/tmp/cs_$$_$s
git -C /repo worktree add -q --detach $wt HEAD 2>/dev/null
if ! git -C $wt apply /verif/seeded/$s/patch.diff 2>/dev/null; then echo "NOAPPLY $s"; git -C /repo worktree remove --force $wt; exit; fi
export GOFLAGS=-mod=mod GOPROXY=off GOSUMDB=off GOTOOLCHAIN=local
files=$(grep '^+++ b/' /verif/seeded/$s/patch.diff | sed 's/+++ b\///')
ok=1
for f in $files; do
  d=$(dirname $f)
  mod=$(echo $f | cut -d/ -f1)
  out=$(cd $wt/$d && go build . 2>&1 && go vet . 2>&1 | grep -v "^#" | grep "undefined\|cannot use\|not used\|declared" )
  if [ -n "$out" ]; then ok=0; echo "BROKEN $s $d: $(echo $out | head -c 200)"; fi
done
git -C /repo worktree remove --force $wt
