#!/usr/bin/env python3
"""import_round.py <prefix> <workdir> <round-label>: copy the results of a seeding round
(<workdir>/<ID>/out/m<k>/{patch.diff,demo_test.go,README.md}) to /verif/seeded/<prefix>-<ID>-m<k> with a meta.json"""
import sys, os, json, shutil, glob
prefix, work, label = sys.argv[1], sys.argv[2], sys.argv[3]
n = 0
for d in sorted(glob.glob(os.path.join(work, "C*", "out", "m*"))):
    pid = d.split("/")[-3]
    k = os.path.basename(d)
    if not (os.path.exists(d + "/patch.diff") and os.path.exists(d + "/demo_test.go")):
        print("incomplete", d); continue
    dst = f"/verif/seeded/{prefix}-{pid}-{k}"
    if os.path.exists(dst):
        print("exists", dst); continue
    os.makedirs(dst)
    for f in ["patch.diff", "demo_test.go", "README.md"]:
        if os.path.exists(d + "/" + f):
            shutil.copy(d + "/" + f, dst + "/" + f)
    readme = open(dst + "/README.md").read() if os.path.exists(dst + "/README.md") else ""
    meta = {"breaks_property": pid,
            "needs_to_manifest": " ".join(readme.split())[:1200],
            "source": f"independent sub-agent ({label}) given only the property text and a scratch worktree",
            "confirmed": "bin/seedall (bin/seedtest, SEED_NOREPO=1): in a scratch worktree the demonstration passes on the clean tree and fails with the patch, the package's existing tests pass with the patch; then the quick check of the property ran against the patched worktree (VERIF_REPO) and the worktree was removed"}
    json.dump(meta, open(dst + "/meta.json", "w"), indent=1)
    n += 1
print("imported", n)
