#!/usr/bin/env python3
"""record_detection.py <results files, oldest first>: write detection / detection_final into seeded/<id>/meta.json
from bin/seedall result lines (`<seed> <prop> demo_clean=.. demo_mutant=.. suite_mutant=.. Cxx=rcN/violN/nofailN`)."""
import sys, json, re, os
def verdict(line):
    m = re.search(r"(C\d\d)=rc(\d)/viol(\d)/nofail(\d)", line)
    if not m:
        return None
    prop, rc, viol, nofail = m.group(1), m.group(2), m.group(3), m.group(4)
    if rc == "0":
        return f"{prop}: missed"
    return f"{prop}: VIOLATION, no-failing-input-found" if nofail == "1" else f"{prop}: VIOLATION with replay"
last, first = {}, {}
for f in sys.argv[1:]:
    for line in open(f):
        parts = line.split()
        if len(parts) < 3:
            continue
        v = verdict(line)
        if v is None:
            continue
        first.setdefault(parts[0], v)
        last[parts[0]] = (v, "demo_mutant=PASS" in line)
for seed, (v, demo_pass) in sorted(last.items()):
    p = f"/verif/seeded/{seed}/meta.json"
    if not os.path.exists(p):
        continue
    m = json.load(open(p))
    if "detection" not in m:
        m["detection"] = first[seed]
    m["detection_final"] = v + (" (the demonstration no longer fails with the patch: see superseded)" if demo_pass else "")
    json.dump(m, open(p, "w"), indent=1)
print(len(last), "seeds recorded")
