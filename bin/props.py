"""Per-property and per-harness tables used by bin/check."""

TB_COMMON = [
    "Lean 4.33.0 kernel (thorough tier: leanchecker re-check of the proof modules)",
    "axioms: only propext / Classical.choice / Quot.sound (audited with #print axioms on every run); no sorry, no native_decide, no own axioms",
    "bin/check + Lean driver (line protocol, diff, monitors) and the Go harness generators: the model-code tie is differential execution, bounded by what the generators reach",
]

HARNESSES = {
    "race": {
        "kind": "race",
        "module": "grpcgcp", "pkg": ".", "test": "TestVerifRace.*",
        "files": ["harness/grpcgcp/zz_verif_race_test.go", "harness/grpcgcp/zz_verif_gme_test.go", "harness/grpcgcp/zz_verif_pool_test.go"],
        "extra_files": {"multiendpoint/zz_verif_dump.go": "harness/multiendpoint/zz_verif_dump.go"},
        "buildflags": ["-race"], "rewrite": "nohook",
        "corpus_glob": "*.ops", "corpus_dirs": [],
        "episode_start": r"^race ",
        "tiers": {"quick": {"episodes": 1, "ms": 1200}, "thorough": {"episodes": 1, "ms": 20000}},
    },
    "gme": {
        "module": "grpcgcp", "pkg": ".", "test": "TestVerifGME",
        "files": ["harness/grpcgcp/zz_verif_gme_test.go", "harness/grpcgcp/zz_verif_pool_test.go"], "rewrite": "vclock",
        "extra_files": {"multiendpoint/zz_verif_dump.go": "harness/multiendpoint/zz_verif_dump.go"},
        "corpus_glob": "*.ops", "corpus_dirs": ["C15", "C16"],
        "episode_start": r"^gme (new|livemon|liveorder|closetimers)",
        "tiers": {"quick": {"episodes": 400}, "thorough": {"episodes": 3000, "seeds": 4}},
    },
    "st": {
        "module": "grpcgcp", "pkg": ".", "test": "TestVerifStream",
        "files": ["harness/grpcgcp/zz_verif_st_test.go", "harness/grpcgcp/zz_verif_pool_test.go"], "rewrite": "vclock",
        "corpus_glob": "*.ops", "corpus_dirs": ["C12"],
        "episode_start": r"^st new",
        "tiers": {"quick": {"episodes": 400}, "thorough": {"episodes": 6000, "seeds": 4}},
    },
    "cfg": {
        "module": "grpcgcp", "pkg": ".", "test": "TestVerifConfig",
        "files": ["harness/grpcgcp/zz_verif_cfg_test.go", "harness/grpcgcp/zz_verif_pool_test.go"], "rewrite": "vclock",
        "corpus_glob": "*.ops", "corpus_dirs": [],
        "episode_start": r"^cfg ",
        "tiers": {"quick": {"episodes": 1200}, "thorough": {"episodes": 12000, "seeds": 8}},
    },
    "pb": {
        "module": "spanner_prober", "pkg": "prober", "test": "TestVerifProber",
        "files": ["harness/spanner_prober/prober/zz_verif_pb_test.go"],
        "corpus_glob": "*.ops", "corpus_dirs": [],
        "episode_start": r"^pb ",
        "tiers": {"quick": {"episodes": 2000}, "thorough": {"episodes": 15000, "seeds": 8}},
    },
    "pbflags": {
        "module": "spanner_prober", "pkg": ".", "test": "TestVerifFlags",
        "files": ["harness/spanner_prober/main/zz_verif_flags_test.go"],
        "corpus_glob": "*.ops", "corpus_dirs": [],
        "episode_start": r"^pb ",
        "tiers": {"quick": {"episodes": 3000}, "thorough": {"episodes": 25000, "seeds": 8}},
    },
    "kp": {
        "module": "grpcgcp", "pkg": ".", "test": "TestVerifKeyPath",
        "files": ["harness/grpcgcp/zz_verif_kp_test.go"],
        "corpus_glob": "*.ops", "corpus_dirs": [],
        "episode_start": r"^kp ",
        "tiers": {"quick": {"episodes": 3000}, "thorough": {"episodes": 30000, "seeds": 8}},
    },
    "ck": {
        "module": "e2e-checksum", "pkg": ".", "test": "TestVerifChecksum",
        "files": ["harness/e2e-checksum/zz_verif_ck_test.go"],
        "corpus_glob": "*.ops", "corpus_dirs": [],
        "episode_start": r"^ck ",
        "tiers": {"quick": {"episodes": 1500}, "thorough": {"episodes": 12000, "seeds": 8}},
    },
    "pool": {
        "module": "grpcgcp", "pkg": ".", "test": "TestVerifPool",
        "files": ["harness/grpcgcp/zz_verif_pool_test.go"], "rewrite": "vclock",
        "corpus_glob": "*.ops", "corpus_dirs": ["C01", "C02", "C03", "C04", "C05", "C06", "C07", "C08", "C09", "C20"],
        "episode_start": r"^pool cfg ",
        "noop_ops": {"C20": r"^pool reserr"},   # operations that, by the property, change nothing (metamorphic search)
        "tiers": {"quick": {"episodes": 1500, "nops": 60}, "thorough": {"episodes": 6000, "nops": 80, "seeds": 8}},
    },
    "me": {
        "module": "grpcgcp", "pkg": "multiendpoint", "test": "TestVerifME",
        "files": ["harness/multiendpoint/zz_verif_me_test.go"],
        "corpus_glob": "*.ops", "corpus_dirs": ["C13", "C14"],
        "episode_start": r"^me new ",
        "tiers": {"quick": {"episodes": 3000, "nops": 30}, "thorough": {"episodes": 15000, "nops": 40, "seeds": 8}},
    },
}

ME_TB = TB_COMMON + [
    "modelled, not verified: time.AfterFunc/Timer.Stop (a timer fires at or after its due time; Stop on a timer that is already due may lose the race and the callback still runs), a monotone clock, sync.RWMutex making every exported method atomic",
    "harness reads multiEndpoint.endpoints/future in-package for the state digest and replaces the package's timeNow/timeAfterFunc variables with a virtual clock",
]

def me_thms(names):
    return [("GcpVerif.Proofs.ME", "GcpVerif.ME." + n) for n in names]

POOL_TB = TB_COMMON + [
    "modelled, not verified: gRPC's side of the balancer contract as played by the fake ClientConn (NewSubConn fails for an empty address list or on request; state reports arbitrary), Go map iteration order (the order of a new picker's ready list is an input of the model step, reported by the harness), the reflective key extraction on the harness's message type (C11 covers the general case)",
    "virtual clock: time.Now() in the package sources is rewritten to the harness clock by a regenerated overlay copy (bin/overlay.py); the rewrite refuses other wall-clock reads",
    "schedule hook: the same overlay copy of gcp_balancer.go carries a line-preserving call `verifHookNewSubConn();` in front of the first statement of gcpBalancer.newSubConn, which lets the harness stop one pick between the pool-size check and newSubConn (operations pickhold / resume); if the pattern is not found the harness generates no such operations",
    "white-box digest: the harness reads the balancer's maps and counters in-package after every operation",
]

def pool_thms(names):
    return [("GcpVerif.Proofs.PoolStreams", "GcpVerif.Pool." + n) for n in names]

def pool_prop(thms, extra_assumptions=()):
    return {"harnesses": ["pool"], "lake_targets": ["GcpVerif"], "theorems": pool_thms(thms),
            "trusted_base": POOL_TB, "assumptions": list(extra_assumptions)}

CK_TB = TB_COMMON + [
    "tools/extract (go/parser): checksumField / checksumWireType are regenerated from e2e-checksum/main.go; Proofs/Checksum.lean computes the tag bytes from them",
    "modelled, not verified: the wrapped proto codec (its output bytes are an input of the model), hash/crc32 (the Lean bitwise CRC-32C is the specification; agreement is tested on every run), proto.Buffer.EncodeVarint/EncodeFixed32",
    "parse_marshal assumes the message type does not itself define field 2047 and that the payload is well-formed wire format",
]

KP_TB = TB_COMMON + [
    "modelled, not verified: package reflect (Kind, Elem, FieldByName/FieldByIndexErr incl. promotion through embedded structs: the harness asks reflect for the resolved field table of every struct and hands it to the model), strings.Title for ASCII locators, strings.Split",
    "non-ASCII locators are outside the model (strings.Title's Unicode title-casing)",
]

PB_TB = TB_COMMON + [
    "tools/extract: gfeT4T7prefix, serverTimingKey, the retry delays, the 1.5 factor, the probe-type table and the flag regexes with the flags they are applied to are regenerated from the Go sources",
    "floating point: the backoff theorems hold for every arithmetic satisfying `Laws` (total order, monotone conversions, exact integers up to 2^53, x*1.5 >= x for x >= 0); the executable F53 model (53-bit round-to-nearest-even dyadics) is PROVED to satisfy them (Proofs/F53: f53_laws, and backoffF53_bounds for the function the driver runs) and is compared bit-for-bit with Go's float64 on every run - that Go's float64 is IEEE-754 binary64 round-to-nearest-even is what remains assumed, sampled by that comparison",
    "modelled, not verified: strconv.ParseInt(_,10,64), strings.HasPrefix/TrimPrefix, regexp for the fragment ^[class]*$, fmt.Sprintf(%s), crypto/sha256 (the payload hash is re-computed by the harness with sha256.Sum256)",
    "ASCII inputs (Go strings are bytes; the model uses characters)",
]

CFG_TB = TB_COMMON + [
    "tools/extract: default sizes, and the shape facts `initializeConfig clones its parameter and never writes through it`, `the only initializeConfig call is guarded by gb.cfg == nil`, `GCPMultiEndpoint stores / returns clones` are regenerated from the Go AST; Proofs/Ties.lean re-checks them",
    "modelled, not verified: protojson (for exactly this schema, on JSON syntax trees; JSON text parsing is Lean's Json parser in the driver), proto.Clone (deep copy), JSON objects with literally repeated keys are outside the generator (Lean's parser merges them)",
    "the protojson round trip is established by the correspondence (every generated message is rendered by protojson.Marshal, parsed by the real ParseConfig and compared with proto.Equal, and the model must agree); the Lean `parse (render c) = c` is checked on evaluated examples only",
    "mutation / aliasing of the caller's object is observed by the harness (bytes before/after, reachable pointer sets disjoint) in addition to the AST facts",
]

ST_TB = TB_COMMON + [
    "interleavings are at the granularity of lock regions: every cs.Lock()...cs.Unlock() region and the region cs.Lock()...cond.Wait() (which releases the mutex atomically) is one atomic step of the model; sync.Mutex / sync.Cond (Mesa semantics, Broadcast wakes every waiter) are modelled, not verified; memory-model effects inside a region are C10's business",
    "the harness realises interleavings at call granularity (a RecvMsg/Header is started, observed to block or return, then other calls are made); blocking is observed with a 15 ms / 3 s wait, decided by the harness's own record of creation / failure / cancellation",
    "one sender thread (gRPC forbids concurrent SendMsg on a stream), up to three receiver threads",
    "the atomicity of the wake-up steps is tied to the code twice: per run the regenerated fact `every Broadcast directly follows an Unlock` (cond_broadcast_handshake), and the harness context `race`, which cancels the call's context from inside the waiter's own context check (while the waiter holds the mutex) so that a wake-up sent without the lock handshake is lost on the real code",
]

GME_TB = TB_COMMON + [
    "the MultiEndpoints inside GCPMultiEndpoint run without recovery timeout and switching delay in the harness (their clock lives in another package and cannot be virtualised); C13/C14 cover the timers",
    "pools are real *grpc.ClientConn whose connection attempts never finish; availability changes are delivered by calling monitoredConn.notify in-package (what the monitor goroutine does); how long a real monitor takes to see a connectivity change ('within bounded time') is not modelled; the monitor goroutine's loop is modelled separately (Model/Monitor.lean, small-step, every interleaving with state changes) and tied by the regenerated fact monitorWaitsOnNotifiedState (one GetState per iteration, notify and WaitForStateChange receive that value); gRPC's WaitForStateChange(ctx, s) is assumed to return once the state differs from s",
    "Go map iteration order of the final status update of UpdateMultiEndpoints is an input of the model: the driver accepts the implementation's state if some order explains it; theorems hold for every order",
    "open connections are counted via GetState() != Shutdown on every connection the DialFunc returned; monitors are counted in the goroutine profile",
]

def gme_thms(names):
    return [("GcpVerif.Proofs.GME", "GcpVerif.GME." + n) for n in names]

SYNC_TB = TB_COMMON + [
    "tools/extract/locks.go (go/parser, no type information): the must-hold lockset of every access to a guarded field, read/write/atomic classification, entry-point kinds (balancer callbacks serialised; everything else concurrent), may-hold sets at Lock() sites; receivers are resolved by spelling (gb, p, gme, me, cs, ref/scRef, mc), guarded fields by name; fail-closed (an unknown construct shrinks the lockset)",
    "abstract mutex per owner type (gb.mu, picker.mu, ref.mu, gme.mu, me.mu, cs.mu): sound when an instance mutex guards fields of the same object",
    "not tracked (frozen after initialisation, published to pickers through cc.UpdateState): gcpBalancer.cfg / methodCfg / unresponsiveDetection / log; gcpPicker.scRefs (immutable after construction); monitoredConn fields",
    "write-once publication exemption for gcpClientStream.ClientStream (written only while nil under cs.mu - AST-checked -, unlocked reads only after a locked region saw it non-nil)",
    "sync.Mutex / sync.RWMutex mutual exclusion is the hypothesis `Excl` of locksetOK_sound; the Go memory model below that is trusted",
    "the race-detector stress run is the search for a concrete race, not the proof",
]

def pool_prop_plus(thms, extra, extra_assumptions=()):
    d = pool_prop(thms, extra_assumptions)
    d["theorems"] = d["theorems"] + extra
    return d

PROPS = {
    "C10": {"harnesses": ["race"], "lake_targets": ["GcpVerif"],
            "theorems": [("GcpVerif.Proofs.Sync", "GcpVerif.Sync." + n) for n in ["locksetOK_sound", "c10_lockset", "once_side_condition"]],
            "leanchecker": ["GcpVerif.Proofs.Sync"], "trusted_base": SYNC_TB,
            "assumptions": ["soundness of the AST extraction (trusted)", "balancer callbacks are serialised by gRPC"]},
    "C15": {"harnesses": ["gme"], "lake_targets": ["GcpVerif"],
            "theorems": gme_thms(["rpc_routes_current", "pickME_known", "pickME_unknown", "pickME_no_name", "pools_exact_after_update", "only_missing_dialled"]) +
                        [("GcpVerif.Proofs.GME3", "GcpVerif.GME." + n) for n in ["update_syncs_status", "update_syncs_status_reach", "fold_sync_status"]] +
                        [("GcpVerif.Proofs.GME4", "GcpVerif.GME." + n) for n in ["update_new_multiendpoint_routes_to_top_ready", "new_multiendpoint_routes_to_top_ready", "update_creates_told", "idxOf_eraseDups_lt"]] +
                        [("GcpVerif.Proofs.METell", "GcpVerif.ME." + n) for n in ["tell_true", "tell_false_noop", "muc_id_of_told"]] +
                        [("GcpVerif.Proofs.Monitor", "GcpVerif.Monitor." + n) for n in ["blocked_means_told", "progress", "report_is_current", "reread_misses_update", "split_read_undoes_sync", "sync_read_missed_update", "monitor_loop_shape", "monitor_reads_state_under_lock", "status_update_wakes_monitors", "status_update_in_priority_order", "sync_tells_current"]],
            "leanchecker": ["GcpVerif.Proofs.GME", "GcpVerif.Proofs.GME3", "GcpVerif.Proofs.GME4", "GcpVerif.Proofs.METell", "GcpVerif.Proofs.Monitor"], "trusted_base": GME_TB,
            "assumptions": ["'within bounded time' is observed only through the monitor's notification being delivered by the harness"]},
    "C16": {"harnesses": ["gme", "me"], "lake_targets": ["GcpVerif"],
            "theorems": gme_thms(["failed_update_is_identity", "invalid_options_rejected", "dial_failure_rejected", "close_releases_all", "close_leaves_timers", "rpc_routes_current"]) +
                        [("GcpVerif.Proofs.GME2", "GcpVerif.GME.rpc_total"), ("GcpVerif.Proofs.GME2", "GcpVerif.GME.reach_g"),
                         ("GcpVerif.Proofs.ME", "GcpVerif.ME.c13_mem_holds"), ("GcpVerif.Proofs.ME", "GcpVerif.ME.reach_inv")],
            "leanchecker": ["GcpVerif.Proofs.GME", "GcpVerif.Proofs.GME2"], "trusted_base": GME_TB,
            "assumptions": ["rpc_total rests on the MultiEndpoint invariant 'Current() names an endpoint of the list' (ME.reach_inv): the MultiEndpoint harness with its virtual clock is part of this check, its membership monitor is reported for C16 as current_names_a_listed_endpoint"]},
    "C12": {"harnesses": ["st"], "lake_targets": ["GcpVerif"],
            "theorems": [("GcpVerif.Proofs.Stream", "GcpVerif.Stream." + n) for n in
                         ["run_inv", "create_at_most_once", "recv_progress", "delegation_after_creation",
                          "first_message_visible", "no_second_attempt", "recv_returns", "inv_step",
                          "recv_after_creation_delegates", "noStale_run"]] +
                        [("GcpVerif.Proofs.Tas", "GcpVerif.Tas." + n) for n in ["one_winner", "split_two_winners", "init_stream_test_and_set_atomic"]] +
                        [("GcpVerif.Proofs.Ties", "GcpVerif.Ties.cond_broadcast_handshake")],
            "leanchecker": ["GcpVerif.Proofs.Stream", "GcpVerif.Proofs.Ties"],
            "trusted_base": ST_TB, "assumptions": []},
    "C17": {"harnesses": ["cfg", "gme"], "lake_targets": ["GcpVerif"],
            "theorems": [("GcpVerif.Proofs.Config", "GcpVerif.Config." + n) for n in
                         ["defaults_tie", "effective_defaults", "effective_absent_pool", "effective_no_config", "effective_methods",
                          "effective_keeps_rest", "effective_idem", "method_table_sound", "method_table_complete",
                          "method_table_unique", "method_table_none"]] +
                        [("GcpVerif.Proofs.ConfigJson", "GcpVerif.Config." + n) for n in
                         ["parse_render", "parse_render_pool", "parse_render_method", "keysOk_of_sublist"]] +
                        [("GcpVerif.Proofs.Widths", "GcpVerif.Widths." + n) for n in ["widened_compare", "narrowed_compare_wrong", "watermark_reads_widened"]] +
                        [("GcpVerif.Proofs.Ties", "GcpVerif.Ties." + n) for n in
                         ["config_not_mutated_not_aliased", "first_update_wins_guard", "pool_defaults_tie"]],
            "leanchecker": ["GcpVerif.Proofs.Config", "GcpVerif.Proofs.ConfigJson", "GcpVerif.Proofs.Ties"],
            "trusted_base": CFG_TB, "assumptions": []},
    "C18": {"harnesses": ["pb", "pbflags"], "lake_targets": ["GcpVerif"],
            "theorems": [("GcpVerif.Proofs.Prober", "GcpVerif.Prober." + n) for n in
                         ["backoff_ge_base", "backoff_le_max", "backoff_mono_retries", "loop_succ", "t4t7_header_first",
                          "t4t7_trailer_fallback", "t4t7_absent", "t4t7_first_entry", "t4t7_no_entry", "wrap64_exact",
                          "databaseURI_segments", "instanceURI_segments", "no_slash_of_match", "generated_regexes_exclude_slash",
                          "generated_regexes_cover", "accepted_probe_type_parses"]] +
                        [("GcpVerif.Proofs.F53", "GcpVerif.Prober." + n) for n in
                         ["f53_laws", "backoffF53_eq", "backoffF53_bounds", "rnd_mono", "rnd_three", "norm_val", "leQ_trans"]],
            "leanchecker": ["GcpVerif.Proofs.Prober", "GcpVerif.Proofs.F53"],
            "trusted_base": PB_TB,
            "assumptions": ["backoff: 0 <= base <= max <= 2^53 ns (known findings K3/K4 outside)", "t4t7 value exact for |ms| <= 9223372036854 (K5)"]},
    "C11": {"harnesses": ["kp"], "lake_targets": ["GcpVerif"],
            "theorems": [("GcpVerif.Proofs.KeyPath", "GcpVerif.KeyPath." + n) for n in
                         ["keys_eq_follow", "getAffinityKeys_eq_follow", "loopKeys_spec", "nil_is_error", "nil_nested_is_error",
                          "empty_slice_no_keys", "missing_field_error", "non_struct_error", "non_string_leaf_error",
                          "string_leaf", "slice_in_order", "split_nonempty"]],
            "leanchecker": ["GcpVerif.Proofs.KeyPath"],
            "trusted_base": KP_TB, "assumptions": ["ASCII locators"]},
    "C19": {"harnesses": ["ck"], "lake_targets": ["GcpVerif"],
            "theorems": [("GcpVerif.Proofs.Checksum", "GcpVerif.Checksum." + n) for n in
                         ["consts_tie", "tag_bytes", "marshal_bytes", "marshal_length", "marshal_payload_suffix",
                          "marshal_error_passthrough", "parse_marshal", "unmarshal_is_inner", "readVarint_varint",
                          "decode_marshal", "declared_2047_corrupts"]],
            "leanchecker": ["GcpVerif.Proofs.Checksum"],
            "trusted_base": CK_TB, "assumptions": ["decode_marshal: the message type does not declare field 2047 itself; for a type that does the property fails (theorem declared_2047_corrupts; known finding K8, exhibited by the harness with a dynamic message type)"]},
    "C01": dict(pool_prop([], ["Reach-level theorems assume gRPC's contract (RunOk: Shutdown is reported only for removed connections)"]),
                theorems=pool_thms(["bound_ready_home", "bound_notready_no_fallback", "unknown_key", "bind_bound_key_noop", "bind_new_key", "unbind_removes", "unbind_other", "lookup_preserves_binding"]) +
                [("GcpVerif.Proofs.PoolKeys", "GcpVerif.Pool." + n) for n in ["bound_key_in_pool", "binding_stable", "keyed_run", "stable_swap"]] +
                [("GcpVerif.Proofs.PoolAffinity", "GcpVerif.Pool." + n) for n in ["bound_stays", "bound_pick_home", "bound_call_travels_home", "stable_step_key"]] +
                [("GcpVerif.Proofs.Ties", "GcpVerif.Ties.bind_reads_subconn_under_lock")]),
    "C02": dict(pool_prop([], ["placement and increment are one atomic step of the model, for picks on the same or on different pickers: the balancer-wide pick mutex gb.pickMu is held exclusively around the scan (F31; per-run obligation c02_scan_exclusive on the regenerated access table; the pick2 operation of the harness runs two picks, on one picker or on two, concurrently with the balancer lock stalled and the model must explain the outcome by some order of two atomic picks); completions and round-robin placements change the counters under the same mutex (F39; per-run obligation c02_counters_under_pick_mutex; operation scanpark stops a pick in the middle of its scan while other calls complete)"]),
                theorems=pool_thms(["streams_exact", "streams_nonneg", "streams_zero_when_idle", "run_inv", "leastBusy_spec", "leastBusy_first_on_tie", "below_watermark_places"]) +
                [("GcpVerif.Proofs.PickAtomic", "GcpVerif.Sync.c02_scan_exclusive"), ("GcpVerif.Proofs.PickAtomic", "GcpVerif.Sync.c02_counters_under_pick_mutex"), ("GcpVerif.Proofs.PickAtomic", "GcpVerif.Sync.c02_scan_present")] +
                [("GcpVerif.Proofs.Atomic", "GcpVerif.Atomic." + n) for n in ["regions_atomic", "regions_atomic_idle", "sim", "unprotected_access_breaks_atomicity"]] +
                [("GcpVerif.Proofs.PoolLoad", "GcpVerif.Pool." + n) for n in ["plain_pick_least_loaded", "published_lists_ready", "getLeastBusy_spec"]]),
    "C03": dict(pool_prop([], ["size bound: minSize <= maxSize and no Shutdown report for a current pool member (RunOk; known finding K6 outside, kernel-checked witness size_bound_needs_contract)"]),
                theorems=pool_thms(["growth_only_when_saturated", "at_max_places_anyway", "below_watermark_places"]) +
                [("GcpVerif.Proofs.PoolSlots", "GcpVerif.Pool." + n) for n in ["size_bounded", "slots_bijective", "pool1_run", "size_bound_needs_contract"]] +
                [("GcpVerif.Proofs.PoolInitial", "GcpVerif.Pool." + n) for n in ["initial_size", "initial_size_nonempty", "bare_run", "pristine_run", "enforce_len"]] +
                [("GcpVerif.Proofs.PoolHold", "GcpVerif.Pool.pick_eq_hold_resume")] +
                [("GcpVerif.Proofs.PoolLoad", "GcpVerif.Pool.growth_needs_real_load"), ("GcpVerif.Proofs.PoolLoad", "GcpVerif.Pool.streamsOf_eq_inflight")]),
    "C04": dict(pool_prop([]), theorems=[("GcpVerif.Proofs.PoolPublish", "GcpVerif.Pool." + n) for n in
                ["counters_exact", "pool_connections_only", "tables_run", "published_matches_pool", "err_picker_iff_tf", "pub_run"]] +
                [("GcpVerif.Proofs.PoolReady", "GcpVerif.Pool." + n) for n in
                 ["picker_ready_list", "rdy_run", "publish_on_change", "unknown_connection_ignored", "th_run"]] +
                [("GcpVerif.Proofs.PoolStages", "GcpVerif.Pool.lift_step"), ("GcpVerif.Proofs.Ties", "GcpVerif.Ties.balancer_callbacks_hold_lock")],
                leanchecker=["GcpVerif.Proofs.PoolPublish", "GcpVerif.Proofs.PoolReady"]),
    "C05": dict(pool_prop([]), theorems=[("GcpVerif.Proofs.PoolTables", "GcpVerif.Pool." + n) for n in
                ["pool_connections_only", "tables_run"]] + [("GcpVerif.Proofs.PoolValid", "GcpVerif.Pool." + n) for n in
                ["pool_never_panics", "slots_exist", "valid_run"]] +
                [("GcpVerif.Proofs.KeyPath", "GcpVerif.KeyPath." + n) for n in
                 ["keys_eq_follow", "nil_is_error", "nil_nested_is_error", "empty_slice_no_keys", "missing_field_error", "non_struct_error"]] +
                [("GcpVerif.Proofs.Sync", "GcpVerif.Sync." + n) for n in ["locksetOK_sound", "c10_lockset"]],
                harnesses=["pool", "kp"], trusted_base=POOL_TB + [t for t in KP_TB if t not in TB_COMMON]),
    "C06": pool_prop_plus([], [("GcpVerif.Proofs.Enforce", "GcpVerif.Enforce." + n) for n in ["loop_done", "loop_fuel", "keepGoing_spins", "enforce_loop_shape"]] +
                               [("GcpVerif.Proofs.Sync", "GcpVerif.Sync.c06_no_self_acquire"), ("GcpVerif.Proofs.Sync", "GcpVerif.Sync.c06_order_acyclic"),
                                ("GcpVerif.Proofs.SyncOrder", "GcpVerif.Sync.no_wait_cycle"), ("GcpVerif.Proofs.SyncOrder", "GcpVerif.Sync.c06_order_certified"),
                                ("GcpVerif.Proofs.SyncOrder", "GcpVerif.Sync.c06_edges_present")], ["wall-clock bounds are observed by the harness watchdog (3 s per call), not proved"]),
    "C07": dict(pool_prop(["disabled_never_refreshes", "response_resets", "isResponse_iff", "stale_call_ignored", "refresh_trigger", "window_exponential", "window_monotone_or_saturated", "refresh_once"], ["window_exponential: k < 63 and unresponsive_detection_ms * 2^k <= MaxInt64 ms; beyond that the window saturates at MaxInt64 ns (window_monotone_or_saturated; K2 was the uint32 wrap, fixed in 6463af4)"]), theorems=pool_thms(["disabled_never_refreshes", "response_resets", "isResponse_iff", "stale_call_ignored", "refresh_trigger", "window_exponential", "window_monotone_or_saturated", "refresh_once"]) +
                [("GcpVerif.Proofs.PoolRefresh", "GcpVerif.Pool." + n) for n in ["one_replacement_per_slot", "refr_run", "refresh_in_progress_noop", "swap_takes_over", "replacement_idle_reconnects", "replacement_not_ready_ignored"]] +
                [("GcpVerif.Proofs.PoolKeys", "GcpVerif.Pool.stable_swap")] +
                [("GcpVerif.Proofs.PoolStale", "GcpVerif.Pool." + n) for n in ["decision_still_due", "det_step", "fwd_step", "woken_call_starts_now", "place_started"]] +
                [("GcpVerif.Proofs.Tas", "GcpVerif.Tas." + n) for n in ["one_winner", "split_two_winners", "refresh_test_and_set_atomic"]] +
                [("GcpVerif.Proofs.Ties", "GcpVerif.Ties.balancer_callbacks_hold_lock"), ("GcpVerif.Proofs.Ties", "GcpVerif.Ties.detector_decision_revalidated"), ("GcpVerif.Proofs.Ties", "GcpVerif.Ties.detector_counts_atomically")] +
                [("GcpVerif.Proofs.PoolDetector", "GcpVerif.Pool." + n) for n in ["detector_quiet", "detector_done", "detector_done_unknown", "detector_scs", "refresh_det"]] +
                [("GcpVerif.Proofs.PoolStages", "GcpVerif.Pool.lift_quiet")]),
    "C08": dict(pool_prop([]), theorems=pool_thms(["fallback_sticky", "fallback_new", "bound_ready_home", "lookup_preserves_binding"]) +
                [("GcpVerif.Proofs.PoolKeys", "GcpVerif.Pool." + n) for n in ["fallback_key_in_pool", "keyed_run"]] +
                [("GcpVerif.Proofs.PoolFallback", "GcpVerif.Pool." + n) for n in ["fbReady_run", "fallback_pick_ready", "fallback_pick_ready_of", "fbStages", "picker_slot_ready"]]),
    "C09": dict(pool_prop([], ["fairness: the n*k picks lie within the first 2^64 BIND picks of the balancer (64-bit cursor since F32, per-run fact rr_cursor_width; no execution reaches 2^64 picks; the harness fast-forwards the cursor across multiples of 2^32 with the stand-in operation rrjump, which is how the 32-bit wrap - formerly K1 - is exhibited on code that has it)", "pool composition unchanged during the window"]),
                theorems=pool_thms(["rr_next_slot", "rrSlot_succ"]) + [("GcpVerif.Proofs.PoolRR", "GcpVerif.Pool." + n) for n in
                ["rr_fair", "rr_fair_nowrap", "window_hits_once", "rrSlot_early", "rr_cursor", "pickRR_assigns", "rr_unfair_at_wrap"]] +
                [("GcpVerif.Proofs.Ties", "GcpVerif.Ties.rr_cursor_atomic_add"), ("GcpVerif.Proofs.Ties", "GcpVerif.Ties.rr_cursor_width")] +
                [("GcpVerif.Proofs.PoolRRWait", "GcpVerif.Pool." + n) for n in ["no_ready_waiter", "no_ready_waiter_run", "wake_leaves_unready"]]),
    "C20": dict(pool_prop(["resolver_error_identity"]), theorems=pool_thms(["resolver_error_identity"]) + [("GcpVerif.Proofs.Ties", "GcpVerif.Ties.resolver_error_only_logs"), ("GcpVerif.Proofs.Ties", "GcpVerif.Ties.balancer_callbacks_hold_lock")]
                + [("GcpVerif.Proofs.PoolAddrs", "GcpVerif.Pool." + n) for n in ["addrs_current", "addrsCur_run", "ccs_connects_all", "ccs_sets_addrs"]]),
    "C13": {
        "harnesses": ["me"], "lake_targets": ["GcpVerif"],
        "theorems": me_thms(["c13_mem_holds", "c13_mem_init", "c13_unavail_excluded_holds", "c13_noavail_holds", "c13_empty_holds", "reach_inv"]) +
                    [("GcpVerif.Proofs.ME2", "GcpVerif.ME." + n) for n in ["c13_switch_top_holds", "c13_d0_holds", "reach_J", "reach_K", "nextCur_d0", "nextCur_idem"]] +
                    [("GcpVerif.Proofs.ME6", "GcpVerif.ME." + n) for n in ["status_matches_reports", "status_matches_reports_run", "reach_sinv", "fire_av"]] +
                    [("GcpVerif.Proofs.ME7", "GcpVerif.ME." + n) for n in ["list_and_priorities", "setEndpoints_list", "init_list", "vw_step", "reach_ids_nodup"]] +
                    [("GcpVerif.Proofs.MEApi", "GcpVerif.ME." + n) for n in ["ReachApi.reachL", "ReachApi.reach", "api_list_and_priorities", "api_inv", "init_negative", "step_setEndpoints_dups"]],
        "leanchecker": ["GcpVerif.Proofs.ME", "GcpVerif.Proofs.ME2", "GcpVerif.Proofs.ME6", "GcpVerif.Proofs.ME7", "GcpVerif.Proofs.MEApi"],
        "trusted_base": ME_TB,
        "assumptions": ["none on the arguments: the machine theorems (Reach: 0 <= RecoveryTimeout, 0 <= SwitchingDelay, lists as given) are lifted to every integer duration and every list by ReachApi.reachL, because the API normalises its arguments first (F29, F30)"],
    },
    "C14": {
        "harnesses": ["me"], "lake_targets": ["GcpVerif"],
        "theorems": me_thms(["c14_stays_holds", "c14_no_preempt_holds", "c14_no_downgrade_holds", "c14_fire_due_holds", "reach_inv"]) +
                    [("GcpVerif.Proofs.ME2", "GcpVerif.ME.c14_repeat_holds"), ("GcpVerif.Proofs.ME2", "GcpVerif.ME.reach_stable"),
                     ("GcpVerif.Proofs.ME3", "GcpVerif.ME.reach_tinv"),
                     ("GcpVerif.Proofs.ME4", "GcpVerif.ME.c14_cancel_holds"), ("GcpVerif.Proofs.ME4", "GcpVerif.ME.c14_converged_holds"),
                     ("GcpVerif.Proofs.ME4", "GcpVerif.ME.reach_V"),
                     ("GcpVerif.Proofs.ME6", "GcpVerif.ME.recovery_not_cut_short"), ("GcpVerif.Proofs.ME6", "GcpVerif.ME.reach_sinv"),
                     ("GcpVerif.Proofs.ME7", "GcpVerif.ME.recovering_timer_count")] +
                    [("GcpVerif.Proofs.MEApi", "GcpVerif.ME." + n) for n in ["ReachApi.reachL", "ReachApi.reach", "api_inv", "api_recovering_timer_count", "api_recovery_not_cut_short", "init_negative"]],
        "leanchecker": ["GcpVerif.Proofs.ME", "GcpVerif.Proofs.ME2", "GcpVerif.Proofs.ME3", "GcpVerif.Proofs.ME4", "GcpVerif.Proofs.ME6", "GcpVerif.Proofs.ME7", "GcpVerif.Proofs.MEApi"],
        "trusted_base": ME_TB,
        "assumptions": ["none on the arguments: the machine theorems (Reach: 0 <= RecoveryTimeout, 0 <= SwitchingDelay) are lifted to every integer duration and every list by ReachApi.reachL (F29, F30)"],
    },
}
