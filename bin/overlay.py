"""Regenerated source rewrites for the overlay (DESIGN §2.5).

rewrite "vclock": every non-test .go file of the package that calls time.Now() is copied to the
work directory with `time.Now()` replaced by `verifNow()` (defined by the harness), so the
unresponsive-connection detector runs on the harness's virtual clock. The rewrite refuses to
proceed if the package reads the wall clock in any other way."""
import glob, os, re

OTHER_CLOCK = re.compile(r"\btime\.(Since|Until)\(")

class RewriteError(Exception):
    pass

def rewrite_sources(kind, pkgdir, work):
    out = {}
    if kind != "vclock":
        raise RewriteError("unknown rewrite " + kind)
    for path in sorted(glob.glob(os.path.join(pkgdir, "*.go"))):
        if path.endswith("_test.go"):
            continue
        src = open(path).read()
        if OTHER_CLOCK.search(src):
            raise RewriteError(f"{path} reads the clock through time.Since/time.Until; the virtual-clock rewrite does not cover it")
        if "time.Now()" not in src:
            continue
        new = src.replace("time.Now()", "verifNow()")
        if not re.search(r"\btime\.", new):
            # keep the import used
            new += "\nvar _ = time.Second\n"
        dst = os.path.join(work, "rw_" + os.path.basename(path))
        open(dst, "w").write(new)
        out[path] = dst
    return out
