"""Regenerated source rewrites for the overlay (DESIGN §2.5).

rewrite "vclock": every non-test .go file of the package that calls time.Now() is copied to the
work directory with `time.Now()` replaced by `verifNow()` (defined by the harness), so the
unresponsive-connection detector runs on the harness's virtual clock. The rewrite refuses to
proceed if the package reads the wall clock in any other way."""
import glob, os, re

# schedule hook: a line-preserving call in front of the first statement of gcpBalancer.newSubConn
# (the `gb.mu.Lock()` that follows the pool-size check made by the picker without that lock); the
# harness uses it to stop one pick exactly there (operation `pickhold`) and let it continue later
HOOK_RE = re.compile(r"(func \(gb \*gcpBalancer\) newSubConn\(\) \{\n[ \t]*)(gb\.mu\.Lock\(\))")

# second schedule hook: in front of the `gb.mu.Lock()` that opens bindSubConn / bindSubConnRef (the BIND completion
# has evaluated its arguments by then): operation `doneswap` stops a completing BIND call there while a refresh
# swaps the channel's connection
# (statements in front of the Lock - a connection read too early, say - stay in front of the hook)
BIND_HOOK_RE = re.compile(r"(func \(gb \*gcpBalancer\) bindSubConn(?:Ref)?\([^)]*\) \{\n(?:(?!\n\}\n|gb\.mu\.Lock\(\))[\s\S])*?)(gb\.mu\.Lock\(\))")

# third schedule hook: in detectUnresponsive, between the test "did this call start after the last response?" and the
# increment of the deadline-exceeded counter — only where the two are separate steps (`if scRef.deCallsInc() >= …` as a
# statement of its own): operation `done2 … park=1` stops a deadline-exceeded completion there while another call's
# response arrives. Where test and increment are one critical section the pattern does not occur and there is
# nothing to stop.
DETECT_HOOK_RE = re.compile(r"(\n[ \t]*)(if scRef\.deCallsInc\(\) >=)")

# fourth schedule hook: in monitoredConn.monitor, between notify and WaitForStateChange (the monitor has told the
# MultiEndpoints a state and is about to sleep until the connection leaves it): operation `livemon … park=1` stops the
# monitor there while the connection's state comes and goes and an update reports the pools' states
MONITOR_HOOK_RE = re.compile(r"(\n[ \t]*)((?:if !)?mc\.conn\.WaitForStateChange\(\w+, (\w+)\))")

# fifth schedule hook: at the top of the loop body of gcpPicker.getLeastBusySubConnRef (the least-loaded scan): operation
# `scanpark` stops a pick there when it comes to the second channel of its list — it has read the first channel's
# counter — while completions of other calls are started; with counters that only change under the pick mutex those
# completions wait, otherwise they run in the middle of the scan
SCAN_HOOK_RE = re.compile(r"(func \(p \*gcpPicker\) getLeastBusySubConnRef\(\) \(\*subConnRef, error\) \{\n(?:.*\n)*?\tfor _, scRef := range p\.scRefs \{)")

# sixth schedule hook: in refreshSince, in front of its `gb.mu.Lock()` (the detector has decided, outside the balancer
# lock, that the channel needs a refresh): operation `donepark` stops a deadline-exceeded completion there while another
# completion refreshes the channel, the replacement takes over and a further call is counted
REFRESH_HOOK_RE = re.compile(r"(func \(gb \*gcpBalancer\) refreshSince\([^)]*\) \{\n(?:(?!\n\}\n|gb\.mu\.Lock\(\))[\s\S])*?)(gb\.mu\.Lock\(\))")

OTHER_CLOCK = re.compile(r"\btime\.(Since|Until)\(")

class RewriteError(Exception):
    pass

def deliver_shim(pkgdir):
    """verifDeliver(mc, state): how the harness hands a pool's connectivity state to the MultiEndpoints, as the
    monitor goroutine does. The function the monitor uses for that has had two shapes: `notify(state)` (takes the
    GCPMultiEndpoint's read lock itself) and, since F35, `reportLocked(state)` (the caller holds the lock; `notify()`
    reads the state under it). The shim is generated for the shape the current source has."""
    src = ""
    p = os.path.join(pkgdir, "gcp_multiendpoint.go")
    if os.path.exists(p):
        src = open(p).read()
    if re.search(r"func \(mc \*monitoredConn\) reportLocked\(state connectivity\.State\)", src):
        body = "\tmc.gme.mu.RLock()\n\tdefer mc.gme.mu.RUnlock()\n\tmc.reportLocked(st)\n"
        shape = "reportLocked"
    else:
        body = "\tmc.notify(st)\n"
        shape = "notify"
    return ("\nfunc verifDeliver(mc *monitoredConn, st connectivity.State) {\n" + body + "}\n\nconst verifDeliverShape = \"" + shape + "\"\n",
            "import \"google.golang.org/grpc/connectivity\"\n")

def rewrite_sources(kind, pkgdir, work):
    out = {}
    hooked = False
    bind_hooked = False
    detect_hooked = False
    monitor_hooked = False
    scan_hooked = False
    refresh_hooked = False
    if kind == "nohook":
        # real clock, no schedule hook (race-detector stress): only tell the harness so
        gen = os.path.join(work, "zz_verif_hookgen_test.go")
        shim, imp = deliver_shim(pkgdir)
        open(gen, "w").write("//go:build verif\n\npackage grpcgcp\n\n" + imp + "\nconst verifHookInstalled = false\nconst verifBindHookInstalled = false\nconst verifDetectHookInstalled = false\nconst verifMonitorHookInstalled = false\nconst verifScanHookInstalled = false\nconst verifRefreshHookInstalled = false\n" + shim)
        return {os.path.join(pkgdir, "zz_verif_hookgen_test.go"): gen}
    if kind != "vclock":
        raise RewriteError("unknown rewrite " + kind)
    for path in sorted(glob.glob(os.path.join(pkgdir, "*.go"))):
        if path.endswith("_test.go"):
            continue
        src = open(path).read()
        if OTHER_CLOCK.search(src):
            raise RewriteError(f"{path} reads the clock through time.Since/time.Until; the virtual-clock rewrite does not cover it")
        new = src
        if "time.Now()" in src:
            new = src.replace("time.Now()", "verifNow()")
            if not re.search(r"\btime\.", new):
                # keep the import used
                new += "\nvar _ = time.Second\n"
        if os.path.basename(path) == "gcp_balancer.go":
            new, n = HOOK_RE.subn(r"\1verifHookNewSubConn(); \2", new, count=1)
            hooked = hooked or n == 1
            new, n2 = BIND_HOOK_RE.subn(r"\1verifHookBind(); \2", new)
            bind_hooked = bind_hooked or n2 >= 1
            new, n6 = REFRESH_HOOK_RE.subn(r"\1verifHookRefreshSince(); \2", new, count=1)
            refresh_hooked = refresh_hooked or n6 == 1
        if os.path.basename(path) == "gcp_multiendpoint.go":
            new, n4 = MONITOR_HOOK_RE.subn(r"\1verifHookMonitorWait(mc.endpoint, \3); \2", new, count=1)
            monitor_hooked = monitor_hooked or n4 == 1
        if os.path.basename(path) == "gcp_picker.go":
            new, n3 = DETECT_HOOK_RE.subn(r"\1verifHookDetect(); \2", new, count=1)
            detect_hooked = detect_hooked or n3 == 1
            new, n5 = SCAN_HOOK_RE.subn(r"\1 verifHookScan();", new, count=1)
            scan_hooked = scan_hooked or n5 == 1
        if new == src:
            continue
        dst = os.path.join(work, "rw_" + os.path.basename(path))
        open(dst, "w").write(new)
        out[path] = dst
    # tell the harness whether the hook could be placed (a refactored newSubConn: no `pickhold` operations)
    gen = os.path.join(work, "zz_verif_hookgen_test.go")
    shim, imp = deliver_shim(pkgdir)
    open(gen, "w").write("//go:build verif\n\npackage grpcgcp\n\n" + imp + "\nconst verifHookInstalled = %s\nconst verifBindHookInstalled = %s\nconst verifDetectHookInstalled = %s\nconst verifMonitorHookInstalled = %s\nconst verifScanHookInstalled = %s\nconst verifRefreshHookInstalled = %s\n" % ("true" if hooked else "false", "true" if bind_hooked else "false", "true" if detect_hooked else "false", "true" if monitor_hooked else "false", "true" if scan_hooked else "false", "true" if refresh_hooked else "false") + shim)
    out[os.path.join(pkgdir, "zz_verif_hookgen_test.go")] = gen
    return out
